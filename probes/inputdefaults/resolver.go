package gocvinputdefaults

import (
	"context"
	"fmt"
)

type Resolver struct{}

func (r *Resolver) Query() QueryResolver { return &queryResolver{} }

type queryResolver struct{}

func (q *queryResolver) Echo(ctx context.Context, in EchoInput, n *int, plain *PlainInput) (string, error) {
	limit, limitSet := in.Limit.ValueOK()
	tag, tagSet := in.Tag.ValueOK()
	l, g := "null", "null"
	if limit != nil {
		l = fmt.Sprint(*limit)
	}
	if tag != nil {
		g = *tag
	}
	return fmt.Sprintf("limit=%s set=%v tag=%s set=%v", l, limitSet, g, tagSet), nil
}
