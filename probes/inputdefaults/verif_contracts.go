//go:build verif

package gocvinputdefaults

// gocv contracts for this probe only (/verif/probes/inputdefaults, copied into the scratch copy of the repository
// before generation; nullable_input_omittable: true). The expectations below are the probe schema's input-field
// defaults written out by hand:
//   input EchoInput  { limit: Int = 7, tag: String = "dflt", note: String, tags: [String!] = [], nums: [Int!] = [1, 2], opts: PlainInput = {} }   (all Omittable in Go)
//   input PlainInput { size: Int! = 5, label: String }
// C02: an input field the client omitted takes its schema default - whether or not the Go field is an Omittable.
//@ func (*executionContext).unmarshalInputEchoInput [C02]
//@   at! `assign asMap["limit"]` requires rhs0 == 7
//@   at! `assign asMap["tag"]` requires rhs0 == "dflt"
//@   at? `assign asMap["note"]` requires false
// an empty list / empty object default is an empty list / object, not null (seeded change C02i)
//@   at! `assign asMap["tags"]` requires rhs0 != nil
//@   at! `assign asMap["nums"]` requires rhs0 != nil
//@   at! `assign asMap["opts"]` requires rhs0 != nil
//@ func (*executionContext).unmarshalInputPlainInput [C02]
//@   at! `assign asMap["size"]` requires rhs0 == 5
//@   at? `assign asMap["label"]` requires false
