//go:build verif

package generated

// gocv contracts for this probe only (shipped with /verif/probes/fedmultikeys, copied into the scratch copy of the
// repository before generation). Item is batch-resolved and has two @key directives, hence two batch resolvers.
//
// C20: a batch resolver is only handed representations that were looked at individually: the resolver is chosen
// from the first representation of the group, and every representation of the group must have gone through the
// resolver lookup before the group (or what is left of it after the ones using another key were split off) is
// passed on - otherwise a representation keyed by `sku` is resolved by the `id` resolver from an empty id.
//@ func (*executionContext).resolveManyEntities [C20]
//@   replay fedMultiKeys.go.tmpl
//@   noescape
//@   ensures panicked ==> calls(Recover) == 1
//@   ghost lookups = 0
//@   at! `entityResolverNameForItem(ctx, rep.entity)` ghost lookups = lookups + 1
//@   loop 1: invariant lookups == idx1 && len(same) <= idx1
//@   at! `ec.resolvers.Entity().FindManyItemByIDs(ctx, typedReps)` requires lookups >= len(reps)
//@   at! `ec.resolvers.Entity().FindManyItemBySkus(ctx, typedReps)` requires lookups >= len(reps)
