//go:build verif

package gocvresolverkeep

// gocv contracts for this probe only (/verif/probes/resolverkeep, copied into the scratch copy of the repository;
// the generator built from the working tree then REGENERATES the resolver file that already holds user code).
// C19: after regeneration the implemented resolver methods are still methods of the same receiver types, with
// their bodies (and therefore their named results) intact. The type names are chosen so that the different ways of
// spelling a private Go name disagree (URLInfo -> uRLInfoResolver, User_profile -> user_profileResolver).
//@ trusted strings.ToLower(s) (r)
//@   nopanic
//@   pure
//@ trusted userHelper(n) (s)
//@   nopanic
//@   pure
//@ func (*uRLInfoResolver).Host [C19]
//@   at! `strings.ToLower("KEPT-BY-USER")` requires arg0 == "KEPT-BY-USER"
//@   ensures res1 == nil && calls(ToLower) == 1
//@   nopanic
//@ func (*user_profileResolver).Nick [C19]
//@   at! `userHelper(41)` requires arg0 == 41
//@   ensures res1 == nil && calls(userHelper) == 1
//@   nopanic
