package gocvresolverkeep

import "fmt"

// userHelper lives outside the resolver files, where regeneration leaves it alone.
func userHelper(n int) string { return fmt.Sprint(n + 1) }
