package gocvresolverkeep

// This file will not be regenerated automatically.
//
// It serves as dependency injection for your app, add any dependencies you require here.

type Resolver struct{}
