#!/bin/bash
# sweep.sh: every claimed property's quick check on the current /repo tree; exits 1 if any check does (run before every commit)
cd /verif
rc=0
for p in $(python3 -c "import json; print(' '.join(c['property_id'] for c in json.load(open('MANIFEST.json'))['checks']))"); do
  out=$(./bin/gocv check $p --tier quick 2>&1); r=$?
  echo "$out" | grep -v '^KNOWN-FINDING' | tail -1
  if [ $r -ne 0 ]; then rc=1; echo "$out" | grep -E 'VIOLATION|failed obligation|ENGINE' | head -5; fi
done
exit $rc
