#!/usr/bin/env python3
"""Regenerates /verif/MANIFEST.json from the claims table below (single source of truth)."""
import json, subprocess, os
V = '/verif'
ids = [json.loads(l)['id'] for l in open(V + '/properties.jsonl')]

# id -> (technique, level text, level note, design ref)
CLAIMS = {}
NA = {}
exec(open(V + '/tools/claims.py').read())

hooks = subprocess.run(['git', '-C', '/repo', 'log', '--format=%H %s'], capture_output=True, text=True).stdout.splitlines()
hook_commits = [l.split()[0] for l in hooks if l.split(' ', 1)[1].startswith('verif:')]

checks = []
for i in ids:
    if i not in CLAIMS:
        continue
    c = CLAIMS[i]
    checks.append({
        "property_id": i,
        "quick_cmd": f"/verif/bin/gocv check {i} --tier quick",
        "thorough_cmd": f"/verif/bin/gocv check {i} --tier thorough",
        "evidence_file": f"/verif/evidence/{i}.json",
        "replay_cmd_template": "/verif/bin/gocv replay {path}",
        "engine": "gocv",
        "level_claimed": {"category": "proof", "text": c['text'], "design_ref": c.get('ref', 'DESIGN.md §3 ' + i)},
        "level_note": c['note'],
        "technique": c['technique'],
    })
na = [{"property_id": i, "reason": NA.get(i, "check not yet built in this session; see DESIGN.md")} for i in ids if i not in CLAIMS]
m = {
    "version": 1,
    "setup_cmd": "cd /verif/engine && go build -mod=vendor -o /verif/bin/gocv .",
    "hooks": {
        "guard": "verif",
        "enable": "Go build tag `verif`: comment-only contract files <pkg>/verif_contracts.go; gocv loads /repo with -tags=verif",
        "baseline_off_cmd": "cd /repo && go test -mod=mod -json -vet=off -count=1 -timeout 25m ./...",
        "source_commits": hook_commits,
        "add_only": True,
    },
    "engines": [{
        "name": "gocv", "path": "/verif/engine", "serves_properties": [c["property_id"] for c in checks],
        "kind_free_text": "contract-based deductive verifier for Go built here: weakest-precondition style VC generation by symbolic execution over go/ast+go/types of /repo's real source (re-read every run), contracts as //@ comments in build-tag guarded files inside /repo, every obligation discharged by z3 4.8.12 / z3 5.1.0 / cvc5 1.0.3; counterexamples replayed on the real code via go test -overlay",
    }],
    "checks": checks,
    "not_applicable": na,
    "notes": "See /verif/DESIGN.md. known_findings.json lists recorded defects (open) and repaired ones (fixed). seeded/ holds independently produced property-breaking changes and which obligations catch them.",
}
json.dump(m, open(V + '/MANIFEST.json', 'w'), indent=1)
print("claimed:", [c["property_id"] for c in checks])
