#!/bin/bash
# confirm_seed.sh <seed-id e.g. C14a> : confirm an independently produced property-breaking change in a scratch
# worktree of /repo (demo passes without / fails with the change; builds; existing suite passes), then keep it
# under /verif/seeded/<id>/.
set -u
ID=$1
SRC=/tmp/seed/out/$ID
[ -f $SRC/patch.diff ] || { echo "no $SRC/patch.diff"; exit 2; }
export GOFLAGS=-mod=mod GOPROXY=off
WT=$(mktemp -d /tmp/seedwt.XXXXXX)
git -C /repo worktree add -q --detach $WT HEAD || exit 2
cleanup() { git -C /repo worktree remove --force $WT 2>/dev/null; rm -rf $WT; }
trap cleanup EXIT
DEMO_REL=$(cat $SRC/demo_path.txt | head -1 | tr -d ' \n')
DEMO_FILE=$SRC/$(basename $DEMO_REL); [ -f "$DEMO_FILE" ] || DEMO_FILE=$(ls $SRC/*_test.go | head -1)
DEMO_CMD=$(python3 -c "import json;print(json.load(open('$SRC/meta.json'))['demo_cmd'])")
cd $WT
mkdir -p $(dirname $DEMO_REL); cp $DEMO_FILE $DEMO_REL
echo "== demo without change: $DEMO_CMD"
bash -c "$DEMO_CMD" > $WT/.demo_without.log 2>&1; R0=$?
tail -3 $WT/.demo_without.log
git apply $SRC/patch.diff || { echo "PATCH DOES NOT APPLY"; exit 1; }
echo "== demo with change"
bash -c "$DEMO_CMD" > $WT/.demo_with.log 2>&1; R1=$?
tail -5 $WT/.demo_with.log
rm -f $DEMO_REL
echo "== build"
go build ./... ; RB=$?
echo "== suite (with change, demo removed)"
go test -vet=off -count=1 -p 6 ./... > $WT/.suite.log 2>&1
FAILS=$(grep -E "^(FAIL|---)" $WT/.suite.log | grep -v "graphql/playground" | grep -E "^FAIL" | grep -v "^FAIL$" )
echo "suite FAIL lines (playground network tests excluded): [$FAILS]"
if [ $R0 -eq 0 ] && [ $R1 -ne 0 ] && [ $RB -eq 0 ] && [ -z "$FAILS" ]; then
  mkdir -p /verif/seeded/$ID
  cp $SRC/patch.diff /verif/seeded/$ID/patch.diff
  cp $DEMO_FILE /verif/seeded/$ID/
  echo "$DEMO_REL" > /verif/seeded/$ID/demo_path.txt
  python3 - <<PY
import json
m=json.load(open('$SRC/meta.json'))
m['confirmed']={'by':'tools/confirm_seed.sh in a scratch worktree of /repo HEAD $(git -C /repo rev-parse --short HEAD)',
 'demo_without_change':'pass','demo_with_change':'fail','go_build':'ok',
 'suite':'go test -vet=off -count=1 ./... passes with the change (graphql/playground *_Integrity need network and fail identically on the unmodified tree)'}
json.dump(m,open('/verif/seeded/$ID/meta.json','w'),indent=1)
PY
  echo "CONFIRMED $ID -> /verif/seeded/$ID"
else
  echo "NOT CONFIRMED $ID: demo_without=$R0 demo_with=$R1 build=$RB fails=[$FAILS]"; exit 1
fi
