#!/bin/bash
# rebase_seed.sh <seeded dir name>: re-applies seeded/<id>/patch.diff to the current /repo with fuzz (a later fix moved its
# context) in a scratch copy and stores the result as seeded/<id>/patch.rebased.diff; prints rejects if any hunk fails.
set -u
ID=$1; V=/verif
S=$(mktemp -d /tmp/gocvrebase.XXXXXX); trap 'rm -rf $S' EXIT
rsync -a --exclude .git /repo/ $S/a/; cp -a $S/a $S/b
(cd $S/b && patch -p1 -F3 --no-backup-if-mismatch < $V/seeded/$ID/patch.diff) > $S/patch.log 2>&1; RC=$?
cat $S/patch.log | grep -v "^patching file" | head -20
find $S/b -name '*.rej' | while read r; do echo "REJECT $r"; cat $r | head -40; rm $r; done
find $S/b -name '*.orig' -delete
(cd $S && diff -ruN a b | sed 's|^--- a/|--- a/|; s|^+++ b/|+++ b/|' > $V/seeded/$ID/patch.rebased.diff)
(cd $S/b && GOFLAGS="-mod=mod -trimpath" GOPROXY=off go build ./... 2>&1 | head -5)
echo "rebased $ID rc=$RC lines=$(wc -l < $V/seeded/$ID/patch.rebased.diff)"
