COMMON_NOTE = ("Trusted: the gocv VC generator itself (guarded by per-function vacuity checks, a must-fail mutant corpus and replay of "
  "counterexamples on the real code), go/types, the SMT solvers, int=64 bit, and the trusted contracts of dependencies listed in the "
  "evidence file's trusted_base. Termination and concurrency are not modelled. ")

CLAIMS['C14'] = dict(
  technique="contract-based deductive verification (gocv: WP/symbolic-execution VCs over go/ast of the real functions, SMT-discharged)",
  text="Function contracts on the real complexity code: safeAdd equals the mathematical saturating add for ALL int pairs (no wrap-around, "
       "negative operands ignored); fieldComplexity returns the custom cost iff it is not below the children else 1+children saturating; "
       "interfaceFieldComplexity is the max over every implementor; selectionSetComplexity's result is the saturating sum (ghost accumulator, "
       "loop invariant) of each selection's contribution, descends exactly for object/interface/union typed fields, never negative, never decreasing; "
       "ComplexityLimit.MutateOperationContext rejects iff complexity > limit. Unbounded in the integers and in the number of selections. The generated Complexity dispatch: every case label is T.f of a generated (type, field) pair and every pair has its label (family complexityswitch on the regenerated test servers), so the user's complexity function is found under the schema's names.",
  note=COMMON_NOTE + "User complexity functions are arbitrary (any result considered). gqlparser helpers (ArgumentMap, GetPossibleTypes, Type.Name) trusted pure. "
       "Two-run monotonicity is only proved as the per-selection inductive step.")

NA['C17'] = ("not applicable to contract-based verification: quantifies over all schemas x configs and its predicate is 'the generated output type-checks', "
             "which is not a pre/postcondition of any function within reach (the spec would be the Go type system applied to template output); see DESIGN.md §3 C17")
NA['C18'] = ("not applicable: byte-identical output across processes / map seeds / start directories is a relational (two-execution) hyperproperty of the whole generator; "
             "no per-function contract states it; see DESIGN.md §3 C18")

CLAIMS['C02'] = dict(
  technique="contract-based deductive verification (gocv: WP/symbolic-execution VCs over go/ast of the real functions, SMT-discharged)",
  text="Function contracts on the real scalar coercion code in graphql/: for every dynamic type an integer/ID unmarshaler accepts "
       "(int, int64, int32, uint32, uint64, string, json.Number, nil) success implies the mathematical value of the result equals the mathematical "
       "value of the input (no number silently changed), out-of-range and wrong-sign inputs and unknown dynamic types yield an error, no panic; "
       "UnmarshalString/ID/Boolean total on the JSON types; CoerceList: nil->empty, list passed through unchanged, scalar v -> [v]. "
       "All inputs, unbounded. The generated argument/input-object code (args.gotpl, input.gotpl) is covered by the probe-proved family contracts listed in the evidence when present. Typed Go lists handed to the executor as variables keep every element (CoerceList, repaired defect D25). Input-field defaults for Omittable Go fields are checked on the /verif probe inputdefaults (the probe schema's defaults written out as mandatory anchors).",
  note=COMMON_NOTE + "strconv parse/format functions trusted to compute the decimal value numval(s). Floats, custom scalars, Omittable and gqlparser's variable coercion are not decided.")

CLAIMS['C08'] = dict(
  technique="contract-based deductive verification (gocv: WP/symbolic-execution VCs over go/ast of the real functions, typestate ghost variables, SMT-discharged)",
  text="The hand-rolled JSON string escaper writeQuotedString is proved against a JSON string-token typestate for ALL strings (loop invariant over the "
       "UTF-8 decoder facts): every source byte is accounted for exactly once, verbatim runs are whole valid UTF-8 sequences needing no escape, every escape "
       "literal decodes to the rune it replaces (hex digits by arithmetic), invalid bytes become \\ufffd, quotes first and last, no out-of-range slice. "
       "Integer marshalers write exactly one decimal string whose mathematical value equals the value (IDs quoted); non-finite floats give an error and no output; "
       "a failing context marshaler yields exactly `null` plus one error; Array/FieldSet writers follow the JSON array/object typestate for any length. Omittable[T].MarshalGQL/MarshalGQLContext either write the wrapped value or fail loudly: after a failed json.Marshal or a ContextMarshaler error nothing is written and they do not return normally (repaired defect D18).",
  note=COMMON_NOTE + "Assumed: UTF-8 decoder axioms (A-utf8), io.Writer implementations neither panic nor touch gqlgen's heap, strconv formats decimal values. "
       "Time/Duration/UUID/Map/Any/Omittable and float text round-trip are not decided. The step from the typestate to 'an RFC 8259 parser decodes the original' is checked only by the replay oracle.")

CLAIMS['C10'] = dict(
  technique="contract-based deductive verification (gocv: WP/symbolic-execution VCs over go/ast of the real functions incl. panic/defer paths, ghost counters, SMT-discharged)",
  text="For every request body / upload map / websocket start payload: every implicit panic site (nil dereference, failed type assertion, index, nil-map write) in gqlgen's own code of "
       "POST/GET/GRAPHQL/UrlEncodedForm/SSE/MultipartMixed/MultipartForm.Do, UrlEncodedForm.parse*, wsConnection.subscribe and RawParams.AddUpload is a discharged obligation "
       "(AddUpload fully nopanic for any variables tree, key and path); CreateOperationContext is only called with non-nil parameters (JSON null bodies); in MultipartForm.Do the body is read only "
       "after the size-limited reader is installed and every created temp file has its removal deferred before anything else can fail (ghost counters, loop invariant); the websocket subscription goroutine lets no panic escape. A refused websocket handshake always ends in a protocol close: wsConnection.init returns false only after close() was called, for every first message including a connection_init whose payload is not an object (repaired defect D10). The federation entity resolvers generated for the entityresolver test data are `safe` for any representation (repaired defects D34, D35). `safe` is transitive over gqlgen's own code: every gqlgen callee of a function under `safe` is itself under a contract that speaks about panics (safe/nopanic/noescape) or is an explicitly listed assumption, so code moved into a new helper does not leave the claim; the websocket message loop (run, init, close, write, closeOnCancel, Websocket.Do, nextMessageWithTimeout) is under it. Multipart uploads are buffered in memory only under a known Content-Length below MaxMemory (repaired defect D24).",
  note=COMMON_NOTE + "net/http, mime/multipart, os, io, encoding/json, gorilla/websocket trusted not to panic on client bytes; stable-field assumption for wsConnection.active/exec; "
       "bytesReader and the websocket message tables are not yet under contract; delivery of exact upload bytes is not decided.")

GOCV = "contract-based deductive verification (gocv: WP/symbolic-execution VCs over go/ast of the real functions incl. panic/defer paths, ghost state, call-site preconditions, frames; SMT-discharged)"

CLAIMS['C03'] = dict(technique=GOCV,
  text="Gate contracts on the real executor and transports, for every control-flow path: parseQuery stores a document in the cache only after Validate returned no error for that very document and under the text it was parsed from, "
       "and returns without errors only validated documents; CreateOperationContext returns no error list only if every parameter mutator and context mutator returned nil (ghost flag + loop invariants), the operation was found, "
       "and variable coercion succeeded, and never returns an empty error list; every transport (POST, GET, GRAPHQL, urlencoded, multipart form, SSE, multipart/mixed, websocket subscribe) calls DispatchOperation only on the no-error path, at most once; "
       "the interceptor chain is built from the last extension to the first with each wrapper calling its hook once and the earlier chain once; mutators are collected in registration order; "
       "DispatchOperation/DispatchError invoke the operation/response middleware exactly once. "
       "Lock discipline around gqlparser's process-global rule list (repaired defect D14a): serving a request never calls RemoveRule/ReplaceRule/AddRule outside the once-function of validate, which runs under the write lock; every validator.Validate call holds the read lock, uses the full rule list (no explicit rules) and is released on every exit.",
  note=COMMON_NOTE + "gqlparser (parser, validator) and cache implementations behind trusted contracts; frames assumed for user mutators; no thread model: the lock discipline is proved, its consequence (no request validated against a half-replaced rule list) is the usual mutual-exclusion argument; sync.Once/RWMutex trusted.")

CLAIMS['C07'] = dict(technique=GOCV,
  text="POST.Do returns the pooled RawParams object to the pool with EVERY field zero (expanded mechanically over all fields of the struct from go/types, so a new field without reset fails) and non-nil on every exit path including panics from callees; "
       "parseQuery's cache lookups and insertions use exactly the query text as key and it has no access to variables, operation name or headers; only validated documents parsed from that text can come out of the cache; mergeHeaders never writes the configured (shared) header maps. "
       "Serving a request must not mutate process-global state: the one place that does (the rule swap for SetDisableSuggestion) is the known finding D14b.",
  note=COMMON_NOTE + "sync.Pool and cache implementations trusted; the relational statement (same response as a fresh server) and concurrency are not decided; APQ memory is C15.")

CLAIMS['C09'] = dict(technique=GOCV,
  text="GET.Do dispatches only when CreateOperationContext returned no error AND the operation it selected (op == opCtx.Operation, by the executor contract and determinism of ForName) is a query, otherwise 406 and nothing dispatched; "
       "in every HTTP transport WriteHeader is only ever called before any dispatch and a path that dispatched never calls WriteHeader (execution started => 200); on CreateOperationContext errors the status comes from statusFor/statusForGraphQLResponse "
       "chosen by the negotiated content type (422/400 for protocol errors, else 200); content negotiation without explicit header yields one of the two GraphQL media types, empty Accept => application/json; "
       "Server.getTransport returns the first supporting transport; ServeHTTP lets no panic escape and answers 422 once on a recovered panic, 400 without transport. "
       "Content type (repaired defects D15-D17): in GET, POST, application/graphql, urlencoded and multipart-form Do no JSON body is written before writeHeaders ran; writeHeaders always leaves a Content-Type (a configured one of any case, else application/json); "
       "handler.sendError and transport.SendError type their JSON body (application/json unless the transport chose one) before the single WriteHeader and the single body write. "
       "Once the response handler has been invoked (resolvers run in there) no panic may leave a single-payload transport's Do, because ServeHTTP answers an escaped panic with 422: the handler's own panics and writeJson's do escape - known finding D32 (the repository's TestPanics pins that status); any other panic after the handler ran is a violation.",
  note=COMMON_NOTE + "executor interface contract assumed here and proved under C03; header map contents and JSON body validity not decided.")

CLAIMS['C15'] = dict(technique=GOCV,
  text="AutomaticPersistedQuery.MutateOperationParameters against the cache invariant Inv (every entry (k,v) has hashOf(v)==k, hashOf = hex(sha256) uninterpreted): Cache.Add is only reachable with the request's own text after computeQueryHash(text) equalled the supplied hash "
       "(call-site precondition hashOf(value)==key), so Inv is preserved on every path and hence after every request history including evictions; a hash-only request either fails with PersistedQueryNotFound or continues with exactly the cached text whose hash is the requested one; "
       "a mismatching text+hash request returns an error, adds nothing and leaves the query unchanged; requests without the extension touch nothing.",
  note=COMMON_NOTE + "SHA-256/hex trusted (collision resistance assumed); Cache implementations may forget but never invent entries; mapstructure trusted. That a rejected request executes nothing is the C03 gate.")

CLAIMS['C16'] = dict(technique=GOCV,
  text="Construction-site contracts on graphql/introspection: at every append/assignment that builds an introspection element the stored name, description, type wrapper, default value and DEPRECATION equal those of the schema element the loop is at "
       "(each argument's own arg.Directives.ForName(\"deprecated\"), not the field's), elements are produced in schema order with exactly the documented skips (ghost count of eligible fields = output length, loop invariants), "
       "WrapTypeFromDef/WrapTypeFromType/defaultValue/IsDeprecated are exact. The disabled-introspection gate lives in generated code and is covered by the probe-proved family contract when listed in the evidence. Introspection never writes the schema: OfType unwraps NON_NULL on a private copy (modifies nothing), the list builders write no field of any schema object; directive arguments report their own deprecation (repaired defect D21).",
  note=COMMON_NOTE + "gqlparser lookups trusted pure; Schema.Types/Directives ordering (sort) and Value.String not decided; the whole round trip 'schema can be rebuilt' is not a per-function contract.")

CLAIMS['C01'] = dict(technique=GOCV,
  text="Runtime mechanisms of execution semantics as contracts on the real graphql/ code: shouldIncludeNode == !skip && include; instanceOf/equalPath with quantified loop invariants; collectFields only groups fields that passed @skip/@include and creates "
       "collected fields with NO selections (so merging never writes into the parsed, possibly cached, document); FieldContext.Path returns freshly allocated storage (frame: no pre-existing location written) so sibling paths cannot alias; "
       "a fragment counts as visited only through a spread that passed @skip/@include (repaired defect D12); getOrCreateAndAppendField moves past an entry only if it must not be merged - same field name and response key with the same, an equally named or (like the new one) an interface parent definition is one entry (repaired defect D13); "
       "AddError records exactly one presented error for a non-nil error; HasFieldError is the existential over recorded paths; Array/FieldSet writers emit entries in order with correct separators. "
       "Generated field/object/list functions are covered by probe-proved family contracts when listed in the evidence. The generator's buildObject takes an object's implementor list (the type conditions generated code hands to CollectFields) from Schema.GetImplements - interfaces and unions - one entry per element; in a generated package that has the field-directive dispatcher _fieldMiddleware every field function goes through it (family fieldmw, checked on the single-file AND the follow-schema layout in the quick tier).",
  note=COMMON_NOTE + "Partial by design (DESIGN.md C01): equivalence with the whole execution algorithm and all schemas other than the probes are not decided.")

CLAIMS['C06'] = dict(technique=GOCV,
  text="Narrow, sequential facts only (schedules and races are not decidable in this family): codegen marks exactly the schema's mutation root (by identity, whatever its name) as concurrency-disabled and Field.IsConcurrent is false for such objects; "
       "collectFields' creator yields collected fields with no selections, so concurrent branches never share (and append into) AST storage; Path() allocates fresh storage. "
       "The generated _Mutation executor (no FieldSet.Concurrently reachable) is covered by the probe-proved family contract when listed in the evidence.",
  note=COMMON_NOTE + "No thread model: determinism under interleavings and data-race freedom are NOT decided.")

PROBE = (" Generated-code parts are probe-proved: gqlgen's generator is run from the working tree's templates on the repository's test-server schemas in a scratch copy, "
         "and every generated function of a family is verified against the family contract (counts per family in the evidence); this is a proof about those generated programs, not about all schemas.")

CLAIMS['C04'] = dict(technique=GOCV + "; family contracts instantiated on code regenerated from the templates",
  text="Panic containment with the engine's panic/defer/recover model: every generated field function lets no panic escape and on a recovered panic calls the recover hook exactly once, reports exactly one error and returns null; "
       "fieldContext functions with arguments contain argument-unmarshal panics (hook once, one error); the closures the object executor hands to the concurrent scheduler, the list element closures and the deferred-group goroutine satisfy the spawn rule "
       "(no panic can leave a goroutine), list element closures still perform their WaitGroup.Done; runtime: Server.ServeHTTP never lets a panic escape and answers a recovered panic with exactly one 422 body, the websocket subscription goroutine lets no panic escape; a list element closure that recovered a panic nulls exactly its own slot and never assigns the slice variable shared with its siblings (repaired defect D29: `ret = nil` emptied the list and made the siblings panic); on the streamed transports a panic of the response handler fails that response only (nextResponse, repaired defect D30). Closure families (the closures object executors hand to the scheduler: 113, list element closures: 43 in the quick tier) are verified under their own tags; a null NonNull field is counted in the field set the closure is run for (its own parameter), never in a captured one; federation entity resolution (resolveEntity / resolveManyEntities / the per-representation goroutines) is checked on the regenerated entityresolver probe." + PROBE,
  note=COMMON_NOTE + "User recover/presenter functions assumed not to panic; FieldSet.Dispatch panic-freedom assumed from its registered closures; value preservation outside the failed subtree and liveness not decided.")

CLAIMS['C05'] = dict(technique=GOCV + "; family contracts instantiated on code regenerated from the templates; ghost join accounting",
  text="Liveness itself is not decidable here; two necessary sequential mechanisms are decided. (1) Join completeness: in every generated list marshaler (incl. worker_limit>0) and in FieldSet.Dispatch each WaitGroup.Add is matched by exactly one spawned "
       "goroutine or direct Done per element (loop invariant calls(spawn)+calls(Done)==index) and each spawned closure performs exactly one Done on every path including panics, so wg.Wait() is not left waiting. "
       "(2) Handler draining: SSE, multipart/mixed and websocket call the response handler until it returns nil on every non-panicking path; the five single-payload HTTP transports do not - recorded as known finding D8 (reproduced: leaked deferred-group goroutines). (3) Lock discipline: in every function under contract no sync.Mutex/RWMutex of gqlgen is locked again while it may be held, neither directly nor by calling one of gqlgen's methods on the same receiver whose syntactic lock summary says it may take that mutex (helpers verified in place included) - a re-acquisition never returns." + PROBE,
  note=COMMON_NOTE + "No scheduler/thread model: bounded-time termination and 'no goroutine alive' are not decided; WaitGroup/semaphore semantics trusted.")

CLAIMS['C13'] = dict(technique=GOCV + "; family contracts instantiated on code regenerated from the templates",
  text="Narrow: the merge equivalence is a relation between two executions and is not decided. Decided: collectFields marks fields collected through @defer fragments only after inclusion checks; in every generated object function a deferred field is registered only in the FieldSet of its label and never also in the main set, "
       "and deferred groups are only started when the object itself is valid; processDeferredGroup increments the pending counter once and starts exactly one goroutine that dispatches the group once and sends exactly one result carrying the group's own path and label. "
       "Delivery order of nested groups (repaired defect D19): a group reads the `delivered` channel of the group it is nested in from its context, resolves its fields under a context carrying its own channel, sends only after having received from the parent's channel (when there is one) and closes its own channel right after its send. Response handlers marshal each payload into a per-call buffer (family exec$closure)." + PROBE,
  note=COMMON_NOTE + "Channel sends/receives/closes are ghost events: that 'sent after the parent' implies 'delivered after the parent' rests on the single consumer of deferredResults; hasNext sequencing is not decided.")

CLAIMS['C20'] = dict(technique=GOCV + "; family contracts instantiated on federation code regenerated from the templates",
  text="On the generated _entities code: buildRepresentationGroups records for every entry the loop index of its representation and that very representation (hence pairwise distinct indices); __resolve_entities returns a list with one slot per representation and joins every group; "
       "in resolveEntityGroup every spawned closure writes at most one slot, list[rep.index] of its own representation, only when its resolver succeeded, and reports at most one error otherwise, one goroutine and one Done per representation; "
       "resolveManyEntities zips positionally over a typedReps slice proved to have exactly len(reps) entries; resolveEntity/resolveManyEntities let no panic escape (they run on goroutines); a resolver name is returned only if not all key fields were null. "
       "Batch resolvers and several @key directives (repaired defect D20, probe /verif/probes/fedmultikeys): every representation of a group went through the resolver lookup before the group - or what is left of it after those selecting another resolver were split off - is handed to a batch resolver. The index recorded for a representation is its position in the REQUEST (ghost copy of the list handed in), whatever is done to the local slice. "
       "Every generated resolveManyEntities (family fedmany, repaired defects D33/D36): the surviving batch only grows by appends guarded by a successful lookup with the batch's own resolver, the group is narrowed to it before any batch resolver (callee pattern FindMany*) is called, the typed batch and the usable representations stay the same length (loop * invariant), an element is written at the index of the representation at the same position, and no return statement inside the representation loops carries an error. "
       "resolveEntity, resolveManyEntities, entityResolverNameFor*, representationField are `safe`: no failed type assertion, index or nil dereference of gqlgen's own on any representation or any user resolver result (repaired defects D34, D35)." + PROBE,
  note=COMMON_NOTE + "No thread model: schedule independence follows only from the proved index-disjointness. Fieldset parsing and other schemas not decided.")

CLAIMS['C11'] = dict(technique=GOCV,
  text="Narrow: the protocol is a concurrent state machine and its all-interleavings quantifier is not decidable here. Decided sequential facts on the real websocket code: wsConnection.init returns true only after the FIRST message was connection_init, the init function accepted it and the ack was written, and never touches the executor; "
       "Websocket.Do enters the message loop only after init returned true; close() is idempotent (second call: no frame, no cancel, no callback; first call: exactly one close frame and one socket close, callback at most once) with the mutex held around the frame write and balanced on every path; "
       "write() sends only while holding the mutex; run() hands the close watcher the context derived for (and cancelled with) the loop and reaches subscribe only from a start message; the subscription goroutine dispatches only after CreateOperationContext succeeded, drains the handler, and cannot die from a panic; a refused handshake always closes (D10). "
       "One operation per id: registering a cancel function must not replace the one of a running operation - this obligation fails on the current code and is the known finding D11 (results after complete, operation that cannot be stopped). The frame handed to an operation goroutine is the reader iteration's own variable (freshPerIteration), so results, errors and the completion keep the id the operation was started with.",
  note=COMMON_NOTE + "gorilla/websocket, message exchangers and user callbacks trusted; channel operations are not modelled; ordering across goroutines, stop/complete races and 'at most one completion per id' are NOT decided.")

CLAIMS['C12'] = dict(technique=GOCV,
  text="Narrow: timing and interleavings are not decidable here. Decided: write discipline on the SSE connection - every write to the shared ResponseWriter (event, completion marker, keep-alive ping) happens under the connection mutex or while no keep-alive goroutine exists (not started / stopped), every Flush under the mutex "
       "(typestate ghost, closures passed to the locking helper are verified inline under held=true); the connection is closed in the same lock hold that writes `complete` (or before it), write() is a no-op on a closed connection, and Do stops the keep-alive on EVERY exit, panics included (onexit clause) - so no ping follows `complete` and nothing touches the ResponseWriter after the handler returned (repaired defect D9); "
       "writeJsonWithSSE emits one event per payload with one json.Marshal of the response (compact, no raw newline), the completion marker is written exactly once after the single dispatch; "
       "multipartResponseAggregator.flush works entirely under its mutex, writes nothing when nothing is pending, writes the initial payload at most once and clears it, writes the pending incremental payloads at most once in one array and clears them, "
       "and ends with a delimiter whose 'closing' flag is exactly !hasNext; Add stores payloads under the mutex in arrival order. Every response handler Exec returns marshals into a buffer declared inside the handler call (family exec$closure on the regenerated singlefile server; repaired defect D27: subscription events shared one buffer and were corrupted when multipart/mixed batched them). SSE and multipart/mixed call the response handler only through nextResponse (call sites addressed by the function value's type), which lets no panic of the handler escape, runs the recover hook once and passes on an error response built by the executor: a panic while a value is serialized no longer puts a bare JSON error into the started stream (repaired defect D30).",
  note=COMMON_NOTE + "select/channel operations modelled as nondeterministic choice; exactly-once delivery across goroutines, disconnects and JSON validity (encoding/json) are not decided.")

CLAIMS['C19'] = dict(technique=GOCV,
  text="Narrow, per the design: contracts on internal/rewrite with go/token facts trusted. getSource(a,b) is exactly file[off(a):off(b)]; GetMethodBody passes the range strictly between the braces of the previous declaration; "
       "GetPrevDecl only returns (and marks as carried over) a method with the requested name on the requested receiver type; RemainingSource writes every declaration that is neither carried over nor an import exactly once "
       "(loop step clause: the written count grows by one exactly for those declarations); ExistingImports yields one entry per import spec in order with its own alias and path; "
       "resolvergen looks previous implementations up under exactly lcFirst(Object)+ucFirst(ResolverType), the name resolver.gotpl emits; "
       "prefixLines (used to re-emit doc comments) prefixes every line including empty ones; import pruning parses with object resolution on, which its shadowing test relies on.",
  note=COMMON_NOTE + "The template text itself (that body/comment are placed unchanged, that the result is valid Go, e.g. a trailing line comment swallowing the closing brace), import pruning and repeated regeneration are decided only on the /verif probe resolverkeep (a resolver file holding user code is regenerated from the working tree's templates and the surviving methods are verified): other schemas, the single-file layout and custom templates are not covered; a doc comment is NOT kept verbatim (known finding D22).")
