#!/bin/bash
# run_demo.sh <test file> <package dir relative to /repo> [-run regexp]: runs a demonstration test against the real
# code in /repo without writing to it (go test -overlay).
set -e
F=$(readlink -f "$1"); PKG=$2; RUN=${3:-Test}
T=$(mktemp -d /tmp/gocvdemo.XXXXXX); trap 'rm -rf $T' EXIT
echo "{\"Replace\": {\"/repo/$PKG/zz_gocv_demo_test.go\": \"$F\"}}" > $T/ov.json
cd /repo && GOFLAGS=-mod=mod GOPROXY=off go test -overlay $T/ov.json -vet=off -count=1 -timeout 120s -run "$RUN" -v ./$PKG/
