#!/usr/bin/env python3
"""mkmutant.py ID name file old new : create selftest/mutants/ID/name.patch replacing old by new in /repo/file (scratch copy)."""
import sys, subprocess, tempfile, os, shutil
ID, name, f, old, new = sys.argv[1:6]
src = open('/repo/' + f).read()
assert src.count(old) >= 1, "old text not found"
d = tempfile.mkdtemp(prefix='mkmut')
os.makedirs(os.path.join(d, 'a', os.path.dirname(f))); os.makedirs(os.path.join(d, 'b', os.path.dirname(f)))
open(os.path.join(d, 'a', f), 'w').write(src)
open(os.path.join(d, 'b', f), 'w').write(src.replace(old, new, 1))
p = subprocess.run(['diff', '-u', 'a/' + f, 'b/' + f], cwd=d, capture_output=True, text=True).stdout
os.makedirs('/verif/selftest/mutants/' + ID, exist_ok=True)
open('/verif/selftest/mutants/%s/%s.patch' % (ID, name), 'w').write(p)
shutil.rmtree(d)
print("wrote", name, len(p.splitlines()), "lines")
