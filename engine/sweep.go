package main

import (
	"fmt"
	"go/types"
	"os"
	"sort"
	"strings"
)

// sweep.go: developer tool, not part of any check. `gocv sweep <pkg patterns>` gives every function of the named
// packages that has no contract a thin synthetic one - `safe`, receiver and pointer/interface/func parameters non-nil -
// and lists the implicit panic sites (index, slice, type assertion, nil map write, division, nil function value, nil
// dereference) the solver cannot discharge. Each line is a question to a human ("can this be reached with client
// input?"), not a finding; the genuine ones became contracts and defects (DESIGN.md §0.7).
func runSweep(patterns []string) int {
	s := &Session{propID: "SWEEP", tier: "quick", timeoutS: 5, repo: repoDir(), tags: map[string]int{}}
	s.outDir, _ = os.MkdirTemp("", "gocv")
	defer os.RemoveAll(s.outDir)
	pkgs, err := loadPackages(s.repo, patterns)
	if err != nil {
		fmt.Println("load:", err)
		return 2
	}
	s.ix = buildIndex(pkgs)
	s.cs, err = loadContracts(pkgs, map[string]string{})
	if err != nil {
		fmt.Println("contracts:", err)
		return 2
	}
	top := map[string]bool{}
	for _, p := range pkgs {
		top[p.PkgPath] = true
	}
	var keys []string
	for k, ref := range s.ix.byKey {
		if !top[ref.pkg.PkgPath] || ref.fd.Body == nil || strings.HasSuffix(ref.pkg.Fset.Position(ref.fd.Pos()).Filename, "_test.go") {
			continue
		}
		if c := s.cs.ByKey[k]; c != nil && !c.Trusted {
			continue
		}
		if ref.fd.Type.TypeParams != nil {
			continue
		}
		keys = append(keys, k)
	}
	sort.Strings(keys)
	for _, k := range keys {
		ref := s.ix.byKey[k]
		con := &Contract{Pkg: ref.pkg.PkgPath, Key: k, Props: []string{"SWEEP"}, Safe: true, Invs: map[int][]*SExpr{}, At: map[string][]AtClause{}, atUsed: map[string]bool{}}
		sig := ref.obj.Type().(*types.Signature)
		nonNil := func(v *types.Var) {
			if v == nil || v.Name() == "" || v.Name() == "_" {
				return
			}
			switch v.Type().Underlying().(type) {
			case *types.Pointer, *types.Interface, *types.Signature:
				if x, err := ParseSpec(v.Name() + " != nil"); err == nil {
					con.Requires = append(con.Requires, x)
				}
			}
		}
		nonNil(sig.Recv())
		for i := 0; i < sig.Params().Len(); i++ {
			nonNil(sig.Params().At(i))
			con.Params = append(con.Params, sig.Params().At(i).Name())
		}
		s.units = append(s.units, s.verifyKey(k, con))
	}
	s.solveAll()
	n := 0
	for _, u := range s.units {
		for _, o := range u.Obls {
			if strings.HasSuffix(o.Name, ":engine-error") {
				fmt.Printf("ENGINE   %s: %s\n", o.Name, trunc(o.Result.Model, 160))
			}
			if o.Result.Status == "unsat" || !strings.Contains(o.Name, ":nopanic:") {
				continue
			}
			if strings.Contains(o.Name, ":nopanic:nil-deref ") && os.Getenv("SWEEP_NILDEREF") == "" {
				continue
			}
			if strings.Contains(o.Name, "call-unknown") || strings.Contains(o.Name, "callee-may-panic") {
				continue
			}
			n++
			fmt.Printf("%-8s %s\n         %s\n", o.Result.Status, o.Name, o.Pos)
		}
	}
	fmt.Printf("sweep: %d functions without contract examined, %d open panic sites\n", len(keys), n)
	return 0
}
