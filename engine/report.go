package main

import (
	"encoding/json"
	"os/exec"
	"fmt"
	"os"
	"path/filepath"
	"regexp"
	"sort"
	"strconv"
	"strings"
	"time"
)

type KnownFinding struct {
	Property   string `json:"property"`
	Obligation string `json:"obligation"` // regular expression on the obligation name (path/exit ordinals excluded)
	What       string `json:"what"`
	Status     string `json:"status"` // "open" findings suppress; anything else ("fixed") suppresses nothing
	Commit     string `json:"commit,omitempty"`
	// ReplayTemplate: the replay template that demonstrates this (open) finding; its oracle is expected to fail on
	// the unchanged tree, so the thorough tier's oracle-sanity run leaves it out - for every property
	ReplayTemplate string `json:"replay_template,omitempty"`
}

type KnownFile struct {
	Findings []KnownFinding `json:"findings"`
	Fixed    []string       `json:"fixed"`
}

func loadKnown() KnownFile {
	var k KnownFile
	b, err := os.ReadFile(filepath.Join(verifRoot, "known_findings.json"))
	if err == nil {
		json.Unmarshal(b, &k)
	}
	return k
}

func (k KnownFile) match(id, obl string) *KnownFinding {
	for i := range k.Findings {
		f := &k.Findings[i]
		if f.Property != id || f.Status != "open" {
			continue
		}
		if re, err := regexp.Compile("^(?:" + f.Obligation + ")$"); err == nil && re.MatchString(obl) {
			return f
		}
	}
	return nil
}

type oblEvidence struct {
	Name    string `json:"name"`
	Status  string `json:"status"`
	Backend string `json:"backend"`
	Ms      int64  `json:"ms"`
}

func (s *Session) report(id string, cfg *CheckConfig, dev bool, t0 time.Time, loadMs int64, probes []ProbeResult) int {
	known := loadKnown()
	total, discharged := 0, 0
	var failed []*Obligation
	var failedUnit []*Unit
	var obEv []oblEvidence
	var samples []any
	trusted := map[string]bool{}
	var gaps []string
	var funcs []string
	var vacuity []map[string]any
	var solverMs int64
	backends := map[string]int{}
	engineProblems := 0
	for _, u := range s.units {
		funcs = append(funcs, u.Short)
		for _, t := range u.Trusted {
			trusted[t] = true
		}
		for _, g := range u.Gaps {
			gaps = append(gaps, u.Short+": "+g)
		}
		if len(u.Obls) == 0 {
			// a function under contract that generates no obligation is a vacuous success: refuse
			u.Obls = append(u.Obls, &Obligation{Name: u.Short + ":no-obligations", Goal: "contract generates at least one obligation", Result: SolveResult{Status: "unknown", Model: "zero obligations generated"}})
		}
		if u.Vacuity != nil && u.Vacuity.Script != "" {
			v := map[string]any{"function": u.Short, "status": u.Vacuity.Result.Status, "backend": u.Vacuity.Result.Backend, "ms": u.Vacuity.Result.Ms}
			vacuity = append(vacuity, v)
			if u.Vacuity.Result.Status == "unsat" {
				// inconsistent axioms / contradictory requires: every proof of this unit is void
				o := &Obligation{Name: u.Short + ":vacuity", Goal: "background theory + requires satisfiable", Result: SolveResult{Status: "unknown", Backend: u.Vacuity.Result.Backend, Model: "declarations and preconditions are UNSATISFIABLE: proofs of this function would be vacuous"}}
				u.Obls = append(u.Obls, o)
			}
		}
		for _, o := range u.Obls {
			total++
			solverMs += o.Result.Ms
			obEv = append(obEv, oblEvidence{o.Name, o.Result.Status, o.Result.Backend, o.Result.Ms})
			if o.Result.Status == "unsat" {
				discharged++
				backends[o.Result.Backend]++
				if len(samples) < 6 && (len(samples) == 0 || total%7 == 0) {
					samples = append(samples, map[string]any{"obligation": o.Name, "goal": trunc(o.Goal, 400), "clause": o.Src, "backend": o.Result.Backend, "ms": o.Result.Ms})
				}
			} else {
				failed = append(failed, o)
				failedUnit = append(failedUnit, u)
				if strings.HasSuffix(o.Name, ":engine-error") {
					engineProblems++
				}
			}
		}
	}
	if dev {
		for _, u := range s.units {
			for _, o := range u.Obls {
				st := "OK  "
				if o.Result.Status != "unsat" {
					st = "FAIL"
				}
				fmt.Printf("%s %-8s %-7s %5dms  %s\n", st, o.Result.Status, o.Result.Backend, o.Result.Ms, o.Name)
				if st == "FAIL" && o.Pos.IsValid() {
					fmt.Printf("       at %s\n", o.Pos)
				}
				if st == "FAIL" && o.Script == "" {
					fmt.Printf("       %s\n", trunc(o.Result.Model, 300))
				}
				if o.Result.Status == "sat" && os.Getenv("SHOWMODEL") != "" {
					fmt.Println(filterModel(o.Result.Model))
				}
				if k := os.Getenv("KEEP"); k != "" {
					os.MkdirAll(k, 0o755)
					os.WriteFile(filepath.Join(k, sanitize(o.Name)+".smt2"), []byte(o.Script), 0o644)
				}
			}
			if u.Vacuity != nil {
				fmt.Printf("     vacuity %-8s %s\n", u.Vacuity.Result.Status, u.Short)
			}
			if os.Getenv("GAPS") != "" {
				for _, g := range u.Gaps {
					fmt.Println("   gap:", u.Short+":", g)
				}
			}
		}
	}
	// violations
	exit := 0
	replayed := map[string]int{}
	nviol := 0
	nKnownObl := 0
	var knownLines []string
	vdir := filepath.Join(verifRoot, "violations", id)
	os.RemoveAll(vdir)
	for i, o := range failed {
		if kf := known.match(id, stripOrdinals(o.Name)); kf != nil {
			line := fmt.Sprintf("KNOWN-FINDING: property=%s %s [obligation %s]", id, kf.What, stripOrdinals(o.Name))
			knownLines = append(knownLines, line)
			nKnownObl++
			continue
		}
		nviol++
		exit = 1
		if nviol > 40 {
			continue // the first 40 violations are written out; the count is in the summary and the evidence
		}
		os.MkdirAll(vdir, 0o755)
		u := failedUnit[i]
		var rr *ReplayResult
		if u.Con != nil && u.Con.replayFor(o.Name) != "" { // also for anchor/binding failures: the corpus of the template is searched
			tn := u.Con.replayFor(o.Name)
			if prev, ok := replayed[u.Key]; ok && prev >= 2 {
				rr = &ReplayResult{Template: tn, Note: "replay skipped: two obligations of this function were already replayed in this run"}
			} else {
				uc, cc := *u, *u.Con
				cc.Replay = tn
				uc.Con = &cc
				rr = s.tryReplay(&uc, o)
				replayed[u.Key]++
			}
		}
		vf := filepath.Join(vdir, sanitize(o.Name)+".json")
		doc := map[string]any{
			"property":        id,
			"obligation":      o.Name,
			"function":        u.Key,
			"clause":          o.Src,
			"goal":            o.Goal,
			"position":        o.Pos.String(),
			"solver_status":   o.Result.Status,
			"backend":         o.Result.Backend,
			"verifier_output": trunc(o.Result.Model, 20000),
		}
		suffix := " no-failing-input-found"
		if rr != nil {
			doc["replay"] = rr
			if rr.Reproduced {
				suffix = ""
			}
		}
		if o.Script != "" {
			sp := filepath.Join(vdir, sanitize(o.Name)+".smt2")
			os.WriteFile(sp, []byte(o.Script), 0o644)
			doc["smt_script"] = sp
		}
		b, _ := json.MarshalIndent(doc, "", " ")
		os.WriteFile(vf, b, 0o644)
		fmt.Printf("VIOLATION property=%s replay=%s%s\n", id, vf, suffix)
		fmt.Printf("  failed obligation: %s (%s)\n", o.Name, o.Result.Status)
		if rr != nil && rr.Reproduced {
			fmt.Printf("  failing input reproduced on the real code: %s\n", trunc(rr.Inputs, 300))
		}
	}
	sort.Strings(knownLines)
	for _, l := range dedup(knownLines) {
		fmt.Println(l)
	}
	// thorough tier: oracle sanity. Every replay template bound to a contract of this property is run over its whole
	// boundary corpus against the unchanged code: its oracle must stay silent (a template tied to a known finding is
	// expected to reproduce and is skipped). A template that does not compile is an engine error.
	var oracleSanity []string
	if s.tier == "thorough" && os.Getenv("VERIF_NO_SELFTEST") == "" && nviol == 0 {
		knownTmpl := map[string]bool{}
		for _, kf := range known.Findings {
			if kf.Status == "open" && kf.ReplayTemplate != "" {
				knownTmpl[kf.ReplayTemplate] = true
			}
		}
		for i, o := range failed {
			if known.match(id, stripOrdinals(o.Name)) != nil && failedUnit[i].Con != nil {
				knownTmpl[failedUnit[i].Con.replayFor(o.Name)] = true
			}
		}
		seen := map[string]bool{}
		for _, u := range s.units {
			if u.Con == nil {
				continue
			}
			var ts []string
			if u.Con.Replay != "" {
				ts = append(ts, u.Con.Replay)
			}
			for _, r := range u.Con.ReplayFor {
				ts = append(ts, r.Tmpl)
			}
			for _, tn := range ts {
				if seen[tn] || knownTmpl[tn] {
					continue
				}
				seen[tn] = true
				tb, err := os.ReadFile(filepath.Join(verifRoot, "replay", tn))
				if err != nil || len(corpusRe.FindAllStringSubmatch(string(tb), -1)) == 0 {
					continue // driven by solver models only
				}
				uc, cc := *u, *u.Con
				cc.Replay = tn
				uc.Con = &cc
				rr := s.corpusReplay(&uc, &Obligation{Name: "oracle-sanity:" + tn}, string(tb), "oracle sanity run on the unchanged tree")
				switch {
				case rr.Reproduced:
					nviol++
					exit = 1
					os.MkdirAll(vdir, 0o755)
					vf := filepath.Join(vdir, "oracle-sanity_"+sanitize(tn)+".json")
					b, _ := json.MarshalIndent(map[string]any{"property": id, "obligation": "oracle-sanity:" + tn, "replay": rr}, "", " ")
					os.WriteFile(vf, b, 0o644)
					fmt.Printf("VIOLATION property=%s replay=%s\n", id, vf)
					fmt.Printf("  the oracle of replay template %s fails on the unchanged code: %s\n", tn, trunc(rr.Inputs, 200))
					oracleSanity = append(oracleSanity, tn+": REPRODUCED "+rr.Inputs)
				case strings.Contains(rr.Note, "DID NOT COMPILE"):
					exit = 1
					fmt.Printf("ENGINE-ERROR property=%s replay template %s does not compile: %s\n", id, tn, trunc(rr.Note, 300))
					oracleSanity = append(oracleSanity, tn+": does not compile")
				default:
					oracleSanity = append(oracleSanity, tn+": silent on the whole corpus")
				}
			}
		}
	}
	// evidence
	var tb []string
	for t := range trusted {
		tb = append(tb, "trusted contract: "+t)
	}
	sort.Strings(tb)
	tb = append(tb, cfg.TrustedBase...)
	tb = append(tb, "gocv VC generator (go/ast+go/types symbolic execution, this repository /verif/engine)", "go/parser, go/types, golang.org/x/tools/go/packages", "SMT solvers z3 4.8.12, z3 5.1.0, cvc5 1.0.3 (first definite answer wins)", "A-int64: int/uint are 64-bit")
	assumptions := append([]string{}, cfg.Assumptions...)
	for _, a := range s.cs.Assumes {
		assumptions = append(assumptions, "contract assume: "+a)
	}
	sort.Strings(gaps)
	gaps = dedup(gaps)
	for _, g := range gaps {
		assumptions = append(assumptions, "abstraction: "+g)
	}
	for _, r := range cfg.Residual {
		assumptions = append(assumptions, "not decided (residual): "+r)
	}
	if len(samples) == 0 && len(obEv) > 0 {
		samples = append(samples, obEv[0])
	}
	seed, _ := strconv.Atoi(os.Getenv("VERIF_SEED"))
	cov := map[string]any{
		"obligations":              total - nKnownObl,
		"known_finding_obligations": nKnownObl,
		"discharged":               discharged,
		"checker_cmd":              fmt.Sprintf("/verif/bin/gocv check %s --tier %s", id, s.tier),
		"trusted_base":             tb,
		"samples":                  samples,
		"functions_under_contract": funcs,
		"per_obligation":           obEv,
		"backends":                 backends,
		"solver_ms_total":          solverMs,
		"load_ms":                  loadMs,
		"vacuity":                  vacuity,
		"known_findings":           dedup(knownLines),
		"undischarged":             namesOf(failed),
		"contract_files":           s.cs.Files,
		"solver_timeout_s":         s.timeoutS,
	}
	lockSites, lockObls := 0, 0
	for _, u := range s.units {
		lockSites += u.LockSites
		for _, o := range u.Obls {
			if strings.Contains(o.Name, ":deadlock:") {
				lockObls++
			}
		}
	}
	if lockSites > 0 {
		cov["lock_discipline"] = map[string]any{
			"lock_events_and_lock_taking_calls_examined": lockSites,
			"obligations_sent_to_the_solver":             lockObls,
			"decided_syntactically":                      "at every other site the mutex is not held on any path of the symbolic state (no obligation is generated)",
			"methods_with_a_lock_summary":                len(s.ix.lockSummaries()),
		}
	}
	if len(oracleSanity) > 0 {
		cov["replay_oracle_sanity"] = oracleSanity
	}
	if len(probes) > 0 {
		cov["generated_probes"] = probes
		cov["family_instances"] = s.famCounts
	}
	ev := map[string]any{
		"property_id": id,
		"tier":        s.tier,
		"seed":        seed,
		"level":       "proof",
		"coverage":    cov,
		"assumptions": assumptions,
		"wall_s":      time.Since(t0).Seconds(),
		"violations":  nviol,
	}
	if s.tier == "thorough" && os.Getenv("VERIF_NO_SELFTEST") == "" {
		// must-fail corpus: property-breaking changes applied to scratch copies must be reported by the quick check
		cmd := exec.Command(filepath.Join(verifRoot, "selftest", "run.sh"), id)
		cmd.Env = append(os.Environ(), "VERIF_NO_SELFTEST=1")
		out, _ := cmd.CombinedOutput()
		var lines []string
		caught, missed, skipped := 0, 0, 0
		for _, l := range strings.Split(string(out), "\n") {
			switch {
			case strings.HasPrefix(l, "CAUGHT"):
				caught++
				lines = append(lines, trunc(l, 260))
			case strings.HasPrefix(l, "MISSED"):
				missed++
				lines = append(lines, trunc(l, 260))
			case strings.HasPrefix(l, "SKIP"):
				skipped++
				lines = append(lines, trunc(l, 260))
			}
		}
		cov["must_fail_corpus"] = map[string]any{"caught": caught, "missed": missed, "skipped_patch_does_not_apply": skipped, "results": lines}
		fmt.Printf("%s: must-fail corpus: %d caught, %d missed, %d skipped (patch no longer applies)\n", id, caught, missed, skipped)
	}
	os.MkdirAll(filepath.Join(verifRoot, "evidence"), 0o755)
	b, _ := json.MarshalIndent(ev, "", " ")
	os.WriteFile(filepath.Join(verifRoot, "evidence", id+".json"), b, 0o644)
	fmt.Printf("%s: %d functions under contract, %d obligations, %d discharged, %d known findings, %d violations, %.1fs\n", id, len(funcs), total, discharged, len(dedup(knownLines)), nviol, time.Since(t0).Seconds())
	return exit
}

var ordRe = regexp.MustCompile(`(@return\d+|#\d+$|/back-edge\d+)`)

// stripOrdinals removes path/exit ordinals so that known findings are identified by obligation kind+anchor.
func stripOrdinals(n string) string { return ordRe.ReplaceAllString(n, "") }

func namesOf(os []*Obligation) []string {
	out := []string{}
	for _, o := range os {
		out = append(out, o.Name)
	}
	return out
}

func dedup(in []string) []string {
	out := []string{}
	seen := map[string]bool{}
	for _, s := range in {
		if !seen[s] {
			seen[s] = true
			out = append(out, s)
		}
	}
	return out
}

func trunc(s string, n int) string {
	if len(s) > n {
		return s[:n] + "…"
	}
	return s
}

func filterModel(m string) string {
	var out []string
	lines := strings.Split(m, "\n")
	for i := 0; i < len(lines); i++ {
		l := lines[i]
		if strings.Contains(l, "define-fun") && !strings.Contains(l, "!") || strings.Contains(l, "|a!") || strings.Contains(l, "|b!") || strings.Contains(l, "|v!") || strings.Contains(l, "|i!") {
			if i+1 < len(lines) {
				out = append(out, strings.TrimSpace(l)+" "+strings.TrimSpace(lines[i+1]))
			}
		}
	}
	if len(out) > 30 {
		out = out[:30]
	}
	return "    " + strings.Join(out, "\n    ")
}
