package main

import (
	"regexp"
)

type ProbeConfig struct {
	Name     string   `json:"name"`
	Dir      string   `json:"dir"`      // directory under /verif/probes copied into the scratch repo copy
	Dest     string   `json:"dest"`     // destination inside the scratch copy (relative)
	Config   string   `json:"config"`   // gqlgen config file relative to Dest
	Tier     string   `json:"tier"`     // "" = always, "thorough" = thorough only
	RepoDir  string   `json:"repo_dir"` // alternatively: an existing directory of the repository to regenerate
	Stub     string   `json:"stub"`     // -stub argument
	Remove   []string `json:"remove"`   // files removed before generation (as the go:generate lines do)
	Patterns []string `json:"patterns"`
}

type ProbeResult struct {
	Name     string   `json:"name"`
	Patterns []string `json:"patterns"`
	GenMs    int64    `json:"gen_ms"`
	Families map[string]int `json:"family_instances,omitempty"`
	Files    []string `json:"files,omitempty"`
}

func generateProbes(repo string, probes []ProbeConfig, tier string) (string, []ProbeResult, error) {
	return generateProbesImpl(repo, probes, tier)
}

func (s *Session) familyUnits(id string, probes []ProbeResult, re *regexp.Regexp) []*Unit {
	return s.familyUnitsImpl(id, probes, re)
}
