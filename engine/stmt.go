package main

import (
	"fmt"
	"strconv"
	"strings"
	"go/ast"
	"go/token"
	"go/types"
)

// execBlock executes statements; returns fallthrough state (nil if none)
func (e *Eng) execBlock(st *State, list []ast.Stmt) *State {
	for _, s := range list {
		if st == nil || st.dead {
			return nil
		}
		st = e.execStmt(st, s)
	}
	if st != nil && st.dead {
		return nil
	}
	return st
}

func (e *Eng) branch(st *State, cond string) *State {
	n := st.clone()
	n.path = e.define("p", "Bool", and(st.path, cond))
	return n
}

func (e *Eng) execStmt(st *State, s ast.Stmt) *State {
	e.curPos = s.Pos()
	switch s := s.(type) {
	case *ast.ExprStmt:
		e.eval(st, s.X)
		return st
	case *ast.DeclStmt:
		gd := s.Decl.(*ast.GenDecl)
		for _, sp := range gd.Specs {
			vs, ok := sp.(*ast.ValueSpec)
			if !ok {
				continue
			}
			if len(vs.Values) == 1 && len(vs.Names) > 1 {
				rv := e.eval(st, vs.Values[0])
				for i, n := range vs.Names {
					e.assign(st, n, rv.Elems[i])
				}
				continue
			}
			for i, n := range vs.Names {
				obj := e.info.ObjectOf(n)
				if i < len(vs.Values) {
					st.vars[obj] = e.coerce(e.eval(st, vs.Values[i]), obj.Type())
				} else {
					st.vars[obj] = e.zeroVal(obj.Type())
				}
			}
		}
		return st
	case *ast.AssignStmt:
		return e.execAssign(st, s)
	case *ast.IncDecStmt:
		v := e.eval(st, s.X)
		t := e.info.TypeOf(s.X)
		op := "+"
		if s.Tok == token.DEC {
			op = "-"
		}
		e.assign(st, s.X, scalar(e.wrap(t, fmt.Sprintf("(%s %s 1)", op, v.T)), "Int", t))
		return st
	case *ast.ReturnStmt:
		var vals []*Val
		if len(s.Results) == 1 && len(e.results) > 1 {
			rv := e.eval(st, s.Results[0])
			vals = rv.Elems
		} else if len(s.Results) == 0 {
			for _, r := range e.results {
				vals = append(vals, st.vars[r])
			}
		} else {
			for _, r := range s.Results {
				vals = append(vals, e.eval(st, r))
			}
		}
		if st.dead {
			return nil
		}
		for i := range vals {
			if i < len(e.results) {
				vals[i] = e.coerce(vals[i], e.results[i].Type())
			}
		}
		if e.loopNest > 0 && e.con != nil && len(e.con.InLoop) > 0 && e.inlDepth == 0 {
			// `inloop ensures E`: a return from inside a loop body (leaving the remaining iterations undone) must satisfy E
			env := e.specEnvFromState(st)
			for i, v := range vals {
				env[fmt.Sprintf("res%d", i)] = v
			}
			for qi, q := range e.con.InLoop {
				g := e.evalSpec(st, q, env, e.oldEnv)
				e.oblige(st, "inloop", fmt.Sprintf("#%d return inside a loop: %s", qi+1, e.con.InLoopSrc[qi]), g.T, s.Pos())
			}
		}
		e.exits = append(e.exits, Exit{Kind: ExitReturn, St: st, Vals: vals, Pos: s.Pos()})
		return nil
	case *ast.BlockStmt:
		return e.execBlock(st, s.List)
	case *ast.IfStmt:
		if s.Init != nil {
			st = e.execStmt(st, s.Init)
			if st == nil {
				return nil
			}
		}
		c := e.eval(st, s.Cond)
		if st.dead {
			return nil
		}
		thenSt := e.execBlock(e.branch(st, c.T), s.Body.List)
		elseSt := e.branch(st, not(c.T))
		if s.Else != nil {
			elseSt = e.execStmt(elseSt, s.Else)
		}
		return e.merge([]*State{thenSt, elseSt})
	case *ast.SwitchStmt:
		return e.execSwitch(st, s)
	case *ast.TypeSwitchStmt:
		return e.execTypeSwitch(st, s)
	case *ast.ForStmt:
		return e.execFor(st, s)
	case *ast.RangeStmt:
		return e.execRange(st, s)
	case *ast.BranchStmt:
		lbl := ""
		if s.Label != nil {
			lbl = s.Label.Name
		}
		switch s.Tok {
		case token.BREAK:
			e.exits = append(e.exits, Exit{Kind: ExitBreak, St: st, Label: lbl})
			return nil
		case token.CONTINUE:
			e.exits = append(e.exits, Exit{Kind: ExitContinue, St: st, Label: lbl})
			return nil
		}
		e.gap("branch stmt %s", s.Tok)
		return st
	case *ast.DeferStmt:
		var args []*Val
		for _, a := range s.Call.Args {
			args = append(args, e.eval(st, a))
		}
		st.defers = append(st.defers, deferEntry{call: s.Call, args: args})
		// ghost events anchored at the registration of a deferred call: at `defer <call text>` ...
		if e.con != nil && len(e.con.At) > 0 {
			ast.Inspect(s.Call, func(n ast.Node) bool {
				c, ok := n.(*ast.CallExpr)
				if !ok {
					return true
				}
				key := "defer " + e.srcFull(c)
				cls, ok := e.con.At[key]
				if !ok {
					return true
				}
				e.con.atUsed[key] = true
				for _, cl := range cls {
					switch cl.Kind {
					case "requires":
						g := e.evalSpec(st, cl.Expr, e.specEnvFromState(st), e.oldEnv)
						e.oblige(st, "at", key+" requires "+cl.Src, g.T, s.Pos())
					case "ghost":
						st.vars[e.ghosts[cl.Name]] = e.evalSpec(st, cl.Expr, e.specEnvFromState(st), e.oldEnv)
					}
				}
				return true
			})
		}
		return st
	case *ast.GoStmt:
		return e.execGo(st, s)
	case *ast.SendStmt:
		// channel send: a ghost event (channel contents and blocking are not modelled)
		v := e.eval(st, s.Value)
		key := "send " + e.srcFull(s.Chan)
		if e.con != nil {
			if cls, ok := e.con.At[key]; ok {
				e.con.atUsed[key] = true
				env := e.specEnvFromState(st)
				env["val"] = v
				for _, cl := range cls {
					if cl.Kind == "requires" {
						g := e.evalSpec(st, cl.Expr, env, e.oldEnv)
						e.oblige(st, "at", key+" requires "+cl.Src, g.T, s.Pos())
					}
				}
			}
		}
		st.counters["send"] = fmt.Sprintf("(+ %s 1)", counterOf(st, "send"))
		e.gap("channel send modelled as a ghost event only")
		return st
	case *ast.SelectStmt:
		// select: nondeterministic choice among the communication clauses (blocking and fairness are not modelled)
		var outs []*State
		nbreak := len(e.exits)
		for _, c := range s.Body.List {
			cc := c.(*ast.CommClause)
			choice := e.freshVal("select", types.Typ[types.Bool])
			b := e.branch(st, choice.T)
			if cc.Comm != nil {
				switch comm := cc.Comm.(type) {
				case *ast.SendStmt:
					b = e.execStmt(b, comm)
				case *ast.ExprStmt:
					e.evalRecv(b, comm.X)
				case *ast.AssignStmt:
					for _, l := range comm.Lhs {
						if id, ok := l.(*ast.Ident); ok && id.Name != "_" {
							if obj := e.info.ObjectOf(id); obj != nil {
								b.vars[obj] = e.freshVal("recv."+id.Name, obj.Type())
							}
						}
					}
					if len(comm.Rhs) == 1 {
						e.evalRecv(b, comm.Rhs[0])
					}
				}
			}
			if b != nil {
				outs = append(outs, e.execBlock(b, cc.Body))
			}
		}
		e.gap("select: modelled as a nondeterministic choice")
		outs = append(outs, e.takeExits(nbreak, ExitBreak, "")...)
		return e.merge(outs)
	case *ast.EmptyStmt:
		return st
	case *ast.LabeledStmt:
		return e.execStmt(st, s.Stmt)
	}
	e.gap("unsupported stmt %T", s)
	e.havocHeap(st)
	return st
}

func (e *Eng) execAssign(st *State, s *ast.AssignStmt) *State {
	if s.Tok != token.ASSIGN && s.Tok != token.DEFINE {
		// op-assign
		bin := &ast.BinaryExpr{X: s.Lhs[0], Y: s.Rhs[0], OpPos: s.TokPos}
		switch s.Tok {
		case token.ADD_ASSIGN:
			bin.Op = token.ADD
		case token.SUB_ASSIGN:
			bin.Op = token.SUB
		default:
			e.gap("op-assign %s abstracted", s.Tok)
			e.assign(st, s.Lhs[0], e.freshVal("opassign", e.info.TypeOf(s.Lhs[0])))
			return st
		}
		l := e.eval(st, s.Lhs[0])
		r := e.eval(st, s.Rhs[0])
		t := e.info.TypeOf(s.Lhs[0])
		op := "+"
		if bin.Op == token.SUB {
			op = "-"
		}
		e.assign(st, s.Lhs[0], scalar(e.wrap(t, fmt.Sprintf("(%s %s %s)", op, l.T, r.T)), "Int", t))
		return st
	}
	if len(s.Rhs) == 1 && len(s.Lhs) > 1 {
		// tuple: call, map comma-ok, type-assert comma-ok
		switch r := ast.Unparen(s.Rhs[0]).(type) {
		case *ast.CallExpr:
			vals := e.evalCall(st, r)
			if st.dead {
				return nil
			}
			for i, l := range s.Lhs {
				if i < len(vals) {
					vals[i].Go = orType(vals[i].Go, e.info.TypeOf(l))
					e.assign(st, l, vals[i])
				}
			}
			return st
		case *ast.IndexExpr:
			mt := e.info.TypeOf(r.X).Underlying().(*types.Map)
			base := e.eval(st, r.X)
			key := e.coerce(e.eval(st, r.Index), mt.Key())
			v, has := e.mapRead(st, mt, base.T, key)
			e.assign(st, s.Lhs[0], v)
			e.assign(st, s.Lhs[1], scalar(has, "Bool", types.Typ[types.Bool]))
			// `v, ok := m[k]`: the presence flag is an assignment event of its own (``at `assign ok` …``, rhs0 = presence)
			if e.con != nil && len(e.con.At) > 0 {
				akey := "assign " + e.srcFull(s.Lhs[1])
				if cls, ok := e.con.At[akey]; ok {
					e.con.atUsed[akey] = true
					env := e.specEnvFromState(st)
					env["rhs0"] = scalar(has, "Bool", types.Typ[types.Bool])
					env["rhsval"] = v
					for _, cl := range cls {
						switch cl.Kind {
						case "requires":
							g := e.evalSpec(st, cl.Expr, env, e.oldEnv)
							e.oblige(st, "at", akey+" requires "+cl.Src, g.T, s.Pos())
						case "ghost":
							st.vars[e.ghosts[cl.Name]] = e.evalSpec(st, cl.Expr, env, e.oldEnv)
						}
					}
				}
			}
			return st
		case *ast.TypeAssertExpr:
			v := e.eval(st, r.X)
			t := e.info.TypeOf(r.Type)
			if sortOf(t) == "Iface" {
				// assertion to an interface type: whether the dynamic type implements it is not modelled
				okb := scalar(e.implTerm(v, t), "Bool", types.Typ[types.Bool])
				e.assume(st, fmt.Sprintf("(=> %s (not (= (itag %s) 0)))", okb.T, v.T))
				mv := scalar(e.define("ta", "Iface", fmt.Sprintf("(ite %s %s inil)", okb.T, v.T)), "Iface", t)
				e.assign(st, s.Lhs[0], mv)
				e.assign(st, s.Lhs[1], okb)
				return st
			}
			ok := fmt.Sprintf("(= (itag %s) %d)", v.T, e.tagOf(t))
			sub := e.branch(st, ok)
			e.ifacePayloadFacts(sub, v, t)
			pv := e.fromIface(v, t)
			// value is payload if ok else zero
			z := e.zeroVal(t)
			mv := e.mergeVals([]string{ok, "true"}, []*Val{pv, z})
			mv.Go = t
			e.assign(st, s.Lhs[0], mv)
			e.assign(st, s.Lhs[1], scalar(ok, "Bool", types.Typ[types.Bool]))
			return st
		}
		e.gap("tuple assign from %T", s.Rhs[0])
		return st
	}
	// parallel assignment: evaluate all rhs first
	var vals []*Val
	for _, r := range s.Rhs {
		v := e.eval(st, r)
		if v.Go == nil {
			v.Go = e.info.TypeOf(r)
		}
		vals = append(vals, v)
	}
	if st.dead {
		return nil
	}
	// assignment anchors: at `assign <lhs text>` requires E   (rhs0 = the value being stored; for `assign
	// base[*]` additionally idx = the index value). Evaluated before the store, so names denote old values;
	// a variable being defined by := denotes its initial value.
	// (a parallel assignment `a, b = x, y` is one such event per left-hand side)
	for li := 0; e.con != nil && len(e.con.At) > 0 && li < len(s.Lhs) && len(s.Lhs) == len(vals); li++ {
		keys := []string{"assign " + e.srcFull(s.Lhs[li])}
		var idxVal *Val
		if ix, ok := ast.Unparen(s.Lhs[li]).(*ast.IndexExpr); ok {
			keys = append(keys, "assign "+e.srcFull(ast.Unparen(ix.X))+"[*]")
			idxVal = e.eval(st, ix.Index)
		}
		if sx, ok := ast.Unparen(s.Lhs[li]).(*ast.SelectorExpr); ok {
			if id, ok := ast.Unparen(sx.X).(*ast.Ident); ok {
				keys = append(keys, "assign "+id.Name+".*")
			}
		}
		if _, exact := e.con.At[keys[0]]; exact && len(keys) > 1 {
			keys = keys[:1] // an exact-text anchor takes precedence over the base[*] wildcard
		}
		for _, key := range keys {
			cls, ok := e.con.At[key]
			if !ok {
				continue
			}
			e.con.atUsed[key] = true
			env := e.specEnvFromState(st)
			env["rhs0"] = vals[li]
			if idxVal != nil {
				env["idx"] = idxVal
			}
			env["rhsNonNull"] = scalar(strconv.FormatBool(e.rhsNonNull(s.Rhs[li])), "Bool", nil)
			if id, ok := s.Lhs[li].(*ast.Ident); ok && s.Tok == token.DEFINE {
				if _, has := env[id.Name]; !has || e.info.Defs[id] != nil {
					env[id.Name] = vals[li]
				}
			}
			for _, cl := range cls {
				switch cl.Kind {
				case "requires":
					g := e.evalSpec(st, cl.Expr, env, e.oldEnv)
					e.oblige(st, "at", key+" requires "+cl.Src, g.T, s.Pos())
				case "ghost":
					st.vars[e.ghosts[cl.Name]] = e.evalSpec(st, cl.Expr, env, e.oldEnv)
				case "assume":
					g := e.evalSpec(st, cl.Expr, env, e.oldEnv)
					e.assume(st, g.T)
					e.gap("ASSUME at `%s`: %s", key, cl.Src)
				}
			}
		}
	}
	for i, l := range s.Lhs {
		v := vals[i]
		if v.Sort == "Nil" {
			v = e.zeroVal(e.info.TypeOf(l))
		}
		if id, ok := l.(*ast.Ident); ok && s.Tok == token.DEFINE {
			if obj := e.info.Defs[id]; obj != nil {
				if v.Go == nil || sortOf(obj.Type()) == "Iface" {
					v = e.coerceFrom(v, e.info.TypeOf(s.Rhs[i]), obj.Type())
				}
				st.vars[obj] = v
				continue
			}
		}
		v = e.coerceFrom(v, e.info.TypeOf(s.Rhs[i]), e.info.TypeOf(l))
		e.assign(st, l, v)
	}
	return st
}

func orType(a, b types.Type) types.Type {
	if a != nil {
		return a
	}
	return b
}

func (e *Eng) coerceFrom(v *Val, from, to types.Type) *Val {
	if to == nil {
		return v
	}
	if sortOf(to) == "Iface" && v.Sort != "Iface" && v.Sort != "Nil" {
		if from == nil {
			from = v.Go
		}
		return e.toIface(v, from)
	}
	return e.coerce(v, to)
}

func (e *Eng) execSwitch(st *State, s *ast.SwitchStmt) *State {
	if s.Init != nil {
		st = e.execStmt(st, s.Init)
	}
	var tag *Val
	if s.Tag != nil {
		tag = e.eval(st, s.Tag)
	}
	var outs []*State
	rest := st
	var def *ast.CaseClause
	nbreak := len(e.exits)
	for _, c := range s.Body.List {
		cc := c.(*ast.CaseClause)
		if cc.List == nil {
			def = cc
			continue
		}
		cond := "false"
		for _, x := range cc.List {
			var c1 string
			if tag != nil {
				v := e.eval(rest, x)
				if tag.Sort == "Iface" || v.Sort == "Iface" {
					c1 = fmt.Sprintf("(= %s %s)", e.coerce(tag, types.NewInterfaceType(nil, nil)).T, e.coerce(v, types.NewInterfaceType(nil, nil)).T)
				} else {
					c1 = fmt.Sprintf("(= %s %s)", tag.T, v.T)
				}
			} else {
				c1 = e.eval(rest, x).T
			}
			if cond == "false" {
				cond = c1
			} else {
				cond = fmt.Sprintf("(or %s %s)", cond, c1)
			}
		}
		cond = e.define("c", "Bool", cond)
		outs = append(outs, e.execBlock(e.branch(rest, cond), cc.Body))
		rest = e.branch(rest, not(cond))
	}
	if def != nil {
		outs = append(outs, e.execBlock(rest, def.Body))
	} else {
		outs = append(outs, rest)
	}
	// unlabeled breaks inside switch end the switch
	outs = append(outs, e.takeExits(nbreak, ExitBreak, "")...)
	return e.merge(outs)
}

func (e *Eng) takeExits(from int, kind ExitKind, label string) []*State {
	var out []*State
	var keep []Exit
	for i, x := range e.exits {
		if i >= from && x.Kind == kind && (x.Label == "" || x.Label == label) {
			out = append(out, x.St)
		} else {
			keep = append(keep, x)
		}
	}
	e.exits = keep
	return out
}

func (e *Eng) execTypeSwitch(st *State, s *ast.TypeSwitchStmt) *State {
	if s.Init != nil {
		st = e.execStmt(st, s.Init)
	}
	var x ast.Expr
	switch a := s.Assign.(type) {
	case *ast.AssignStmt:
		x = a.Rhs[0].(*ast.TypeAssertExpr).X
	case *ast.ExprStmt:
		x = a.X.(*ast.TypeAssertExpr).X
	}
	v := e.eval(st, x)
	var outs []*State
	rest := st
	var def *ast.CaseClause
	nbreak := len(e.exits)
	for _, c := range s.Body.List {
		cc := c.(*ast.CaseClause)
		if cc.List == nil {
			def = cc
			continue
		}
		cond := "false"
		var single types.Type
		for _, tx := range cc.List {
			var c1 string
			if id, ok := tx.(*ast.Ident); ok && id.Name == "nil" {
				c1 = fmt.Sprintf("(= (itag %s) 0)", v.T)
			} else {
				t := e.info.TypeOf(tx)
				if sortOf(t) == "Iface" {
					c1 = e.implTerm(v, t)
				} else {
					c1 = fmt.Sprintf("(= (itag %s) %d)", v.T, e.tagOf(t))
				}
				if len(cc.List) == 1 {
					single = t
				}
			}
			if cond == "false" {
				cond = c1
			} else {
				cond = fmt.Sprintf("(or %s %s)", cond, c1)
			}
		}
		b := e.branch(rest, cond)
		if obj := e.info.Implicits[cc]; obj != nil {
			if single != nil && sortOf(single) != "Iface" {
				e.ifacePayloadFacts(b, v, single)
				pv := e.fromIface(v, single)
				pv.Go = single
				b.vars[obj] = pv
			} else {
				b.vars[obj] = v
			}
		}
		outs = append(outs, e.execBlock(b, cc.Body))
		rest = e.branch(rest, not(cond))
	}
	if def != nil {
		if obj := e.info.Implicits[def]; obj != nil {
			rest.vars[obj] = v
		}
		outs = append(outs, e.execBlock(rest, def.Body))
	} else {
		outs = append(outs, rest)
	}
	outs = append(outs, e.takeExits(nbreak, ExitBreak, "")...)
	return e.merge(outs)
}

// ---------- loops ----------

func (e *Eng) assignedVars(info *types.Info, n ast.Node) (map[types.Object]bool, bool) {
	vars := map[types.Object]bool{}
	heap := false
	ast.Inspect(n, func(x ast.Node) bool {
		switch x := x.(type) {
		case *ast.AssignStmt:
			for _, l := range x.Lhs {
				if id, ok := l.(*ast.Ident); ok {
					if o := info.ObjectOf(id); o != nil {
						vars[o] = true
					}
				} else {
					heap = true
					// base variable of selector/index chain holding struct values
					b := l
					for {
						switch bb := b.(type) {
						case *ast.SelectorExpr:
							b = bb.X
							continue
						case *ast.IndexExpr:
							b = bb.X
							continue
						}
						break
					}
					if id, ok := b.(*ast.Ident); ok {
						if o := info.ObjectOf(id); o != nil {
							// writing through a map, slice or pointer does not change the variable itself
							switch o.Type().Underlying().(type) {
							case *types.Map, *types.Slice, *types.Pointer:
							default:
								vars[o] = true
							}
						}
					}
				}
			}
		case *ast.IncDecStmt:
			if id, ok := x.X.(*ast.Ident); ok {
				vars[info.ObjectOf(id)] = true
			} else {
				heap = true
			}
		case *ast.RangeStmt:
			for _, k := range []ast.Expr{x.Key, x.Value} {
				if id, ok := k.(*ast.Ident); ok && id != nil {
					if o := info.ObjectOf(id); o != nil {
						vars[o] = true
					}
				}
			}
		case *ast.CallExpr:
			if !e.callIsPure(x) {
				heap = true
			}
		case *ast.GoStmt, *ast.DeferStmt:
			heap = true
		}
		return true
	})
	return vars, heap
}

// ghostsAssignedIn returns the ghost variables updated by at-clauses anchored at calls inside n.
func (e *Eng) ghostsAssignedIn(n ast.Node) map[types.Object]bool {
	out := map[types.Object]bool{}
	if e.con == nil || len(e.con.At) == 0 {
		return out
	}
	ast.Inspect(n, func(x ast.Node) bool {
		if as, ok := x.(*ast.AssignStmt); ok && len(as.Lhs) == 1 {
			keys := []string{"assign " + e.srcFull(as.Lhs[0])}
			if ix, ok := ast.Unparen(as.Lhs[0]).(*ast.IndexExpr); ok {
				if id, ok := ast.Unparen(ix.X).(*ast.Ident); ok {
					keys = append(keys, "assign "+id.Name+"[*]")
				}
			}
			if sx, ok := ast.Unparen(as.Lhs[0]).(*ast.SelectorExpr); ok {
				if id, ok := ast.Unparen(sx.X).(*ast.Ident); ok {
					keys = append(keys, "assign "+id.Name+".*")
				}
			}
			for _, k := range keys {
				for _, cl := range e.con.At[k] {
					if cl.Kind == "ghost" {
						if g, ok := e.ghosts[cl.Name]; ok {
							out[g] = true
						}
					}
				}
			}
		}
		if c, ok := x.(*ast.CallExpr); ok {
			t := e.srcFull(c)
			keys := []string{t, "defer " + t}
			if ord, ok := e.callOrd[c]; ok {
				keys = append(keys, fmt.Sprintf("%s#%d", t, ord))
			}
			for k := range e.con.At {
				if strings.HasSuffix(k, "...") && strings.HasPrefix(t, strings.TrimSuffix(k, "...")) {
					keys = append(keys, k)
				}
			}
			for _, k := range keys {
				for _, cl := range e.con.At[k] {
					if cl.Kind == "ghost" {
						if g, ok := e.ghosts[cl.Name]; ok {
							out[g] = true
						}
					}
				}
			}
		}
		return true
	})
	return out
}

// loopFrame computes which heap arrays a loop body may write: (entries, false) when every write is a field
// write or a call with a declared frame; (nil, true) when the whole heap must be forgotten.
func (e *Eng) loopFrame(n ast.Node) ([]string, bool) {
	var entries []string
	full := false
	addLHS := func(l ast.Expr) {
		switch x := ast.Unparen(l).(type) {
		case *ast.Ident:
		case *ast.SelectorExpr:
			sel := e.info.Selections[x]
			if sel == nil {
				return // qualified package variable
			}
			// only pointer-based field writes touch the heap; struct values in variables do not
			bt := e.info.TypeOf(x.X)
			if _, isPtr := bt.Underlying().(*types.Pointer); !isPtr {
				// may still be a nested selector on a pointer (a.b.c = v): be conservative
				if _, isId := ast.Unparen(x.X).(*ast.Ident); !isId {
					full = true
				}
				return
			}
			rt := sel.Recv()
			if p, ok := rt.Underlying().(*types.Pointer); ok {
				rt = p.Elem()
			}
			tn := types.TypeString(rt, func(p *types.Package) string { return p.Name() })
			if i := strings.LastIndex(tn, "."); i >= 0 {
				tn = tn[i+1:]
			}
			entries = append(entries, tn+"."+x.Sel.Name)
		case *ast.IndexExpr:
			switch e.info.TypeOf(x.X).Underlying().(type) {
			case *types.Map:
				entries = append(entries, "maps")
			default:
				entries = append(entries, "elems")
			}
		default:
			full = true
		}
	}
	ast.Inspect(n, func(x ast.Node) bool {
		switch x := x.(type) {
		case *ast.AssignStmt:
			for _, l := range x.Lhs {
				addLHS(l)
			}
		case *ast.IncDecStmt:
			addLHS(x.X)
		case *ast.GoStmt, *ast.DeferStmt:
			full = true
		case *ast.CallExpr:
			if e.callIsPure(x) {
				return true
			}
			fun := ast.Unparen(x.Fun)
			if id, ok := fun.(*ast.Ident); ok {
				if _, isB := e.info.ObjectOf(id).(*types.Builtin); isB {
					switch id.Name {
					case "append", "copy":
						entries = append(entries, "elems")
					case "delete", "clear":
						entries = append(entries, "maps")
					default:
						full = true
					}
					return true
				}
			}
			key, sig, _ := calleeKey(e.info, x)
			if sig == nil {
				full = true
				return true
			}
			con := e.contracts.lookup(key, e.declPkg())
			if con != nil && con.HasFrame {
				entries = append(entries, con.Modifies...)
			} else {
				full = true
			}
		}
		return true
	})
	if full {
		return nil, true
	}
	return entries, false
}

func (e *Eng) havocLoopHeap(head *State, body ast.Node, any bool) {
	if !any {
		return
	}
	entries, full := e.loopFrame(body)
	if full {
		e.havocHeap(head)
		return
	}
	e.havocFrame(head, entries)
}

// havocCounters makes the call counters of every callee called inside body unknown (but not smaller).
func (e *Eng) havocCounters(st *State, body ast.Node) {
	ast.Inspect(body, func(n ast.Node) bool {
		c, ok := n.(*ast.CallExpr)
		if !ok {
			return true
		}
		key, sig, _ := calleeKey(e.info, c)
		if sig == nil || key == "" {
			return true
		}
		if e.counterHavocked == nil {
			e.counterHavocked = map[string]bool{}
		}
		tag := fmt.Sprintf("%p|%s", st, key)
		if e.counterHavocked[tag] {
			return true
		}
		e.counterHavocked[tag] = true
		old := counterOf(st, key)
		nv := e.declare(e.fresh("cnt."+shortKey(key)), "Int")
		e.decls = append(e.decls, fmt.Sprintf("(assert (>= %s %s))", nv, old))
		st.counters[key] = nv
		return true
	})
}

func (e *Eng) havocVars(st *State, vars map[types.Object]bool, body ast.Node) {
	e.havocCounters(st, body)
	for g := range e.ghostsAssignedIn(body) {
		vars[g] = true
	}
	for o := range vars {
		if _, ok := st.vars[o]; ok {
			st.vars[o] = e.freshVal("loop."+o.Name(), o.Type())
		}
	}
}

func (e *Eng) loopInvs() []*SExpr {
	e.loopOrd++
	if e.con == nil {
		return nil
	}
	return e.con.Invs[e.loopOrd]
}

// loopInvsIn adds the `loop *:` invariants - written once for every loop of a function whose loops are generated from
// the schema, so that their number varies - to the numbered ones: those whose program variables are all in scope at
// this loop (a `loop *` invariant over variables declared later, or in another branch, does not concern this loop).
func (e *Eng) loopInvsIn(st *State) []*SExpr {
	invs := e.loopInvs()
	if e.con == nil || len(e.con.Invs[0]) == 0 {
		return invs
	}
	env := e.specEnvFromState(st)
	out := append([]*SExpr{}, invs...)
	for _, x := range e.con.Invs[0] {
		ok := true
		var walk func(x *SExpr, bound map[string]bool)
		walk = func(x *SExpr, bound map[string]bool) {
			if x == nil || !ok {
				return
			}
			if x.Kind == SIdent {
				n := x.Name
				if _, has := env[n]; !has && !bound[n] && n != "true" && n != "false" && n != "nil" && !strings.HasPrefix(n, "idx") && !strings.HasPrefix(n, "range") {
					if _, g := e.ghosts[n]; !g {
						ok = false
					}
				}
				return
			}
			args := x.Args
			if x.Kind == SCall && len(args) > 0 {
				args = args[1:] // the function position is a spec function / builtin name
			}
			nb := bound
			if len(x.QVars) > 0 {
				nb = map[string]bool{}
				for k := range bound {
					nb[k] = true
				}
				for _, q := range x.QVars {
					nb[q] = true
				}
			}
			for _, a := range args {
				walk(a, nb)
			}
		}
		walk(x, map[string]bool{})
		if ok {
			out = append(out, x)
		}
	}
	return out
}

func (e *Eng) specEnvFromState(st *State) map[string]*Val {
	env := map[string]*Val{}
	best := map[string]types.Object{}
	for o, v := range st.vars {
		name := o.Name()
		if cur, ok := best[name]; ok {
			// several variables with this name: keep the one whose scope contains the current position,
			// innermost first; fall back to the most recently declared
			if !e.prefer(o, cur) {
				continue
			}
		}
		best[name] = o
		env[name] = v
	}
	return env
}

func (e *Eng) inScope(o types.Object) bool {
	if o.Parent() == nil || !e.curPos.IsValid() {
		return true
	}
	return o.Parent().Contains(e.curPos) && o.Pos() <= e.curPos
}

func (e *Eng) prefer(a, b types.Object) bool {
	ia, ib := e.inScope(a), e.inScope(b)
	if ia != ib {
		return ia
	}
	return a.Pos() > b.Pos()
}

func (e *Eng) checkInvs(st *State, invs []*SExpr, ord int, when string, pos token.Pos) {
	for i, inv := range invs {
		g := e.evalSpec(st, inv, e.specEnvFromState(st), e.oldEnv)
		e.oblige(st, "invariant", fmt.Sprintf("loop%d#%d %s", ord, i+1, when), g.T, pos)
	}
}

// checkSteps checks `loop N: step E` clauses at a back edge; prev(x) in E denotes x at the loop head.
func (e *Eng) checkSteps(head, back *State, ord int, pos token.Pos) {
	if e.con == nil {
		return
	}
	for i, sx := range e.con.Steps[ord] {
		saved := e.prevState
		e.prevState = head
		g := e.evalSpec(back, sx, e.specEnvFromState(back), e.oldEnv)
		e.prevState = saved
		e.oblige(back, "step", fmt.Sprintf("loop%d#%d", ord, i+1), g.T, pos)
	}
}

func (e *Eng) assumeInvs(st *State, invs []*SExpr) {
	for _, inv := range invs {
		g := e.evalSpec(st, inv, e.specEnvFromState(st), e.oldEnv)
		e.assume(st, g.T)
	}
}

func (e *Eng) execFor(st *State, s *ast.ForStmt) *State {
	if s.Init != nil {
		st = e.execStmt(st, s.Init)
	}
	invs := e.loopInvsIn(st)
	ord := e.loopOrd
	e.checkInvs(st, invs, ord, "entry", s.Pos())
	mod, heap := e.assignedVars(e.info, s)
	head := st.clone()
	e.havocVars(head, mod, s)
	e.havocLoopHeap(head, s, heap)
	// new path symbol for arbitrary iteration
	hp := e.declare(e.fresh("loophead"), "Bool")
	head.path = hp
	e.decls = append(e.decls, fmt.Sprintf("(assert (=> %s %s))", hp, st.path))
	e.assumeInvs(head, invs)
	cond := "true"
	if s.Cond != nil {
		cond = e.eval(head, s.Cond).T
	}
	nex := len(e.exits)
	e.loopNest++
	body := e.execBlock(e.branch(head, cond), s.Body.List)
	e.loopNest--
	conts := append(e.takeExits(nex, ExitContinue, ""), body)
	back := e.merge(conts)
	if back != nil {
		if s.Post != nil {
			back = e.execStmt(back, s.Post)
		}
		e.checkInvs(back, invs, ord, "preserved", s.Pos())
		e.checkSteps(head, back, ord, s.Pos())
	}
	exit := e.branch(head, not(cond))
	outs := append(e.takeExits(nex, ExitBreak, ""), exit)
	if s.Cond == nil {
		outs = outs[:len(outs)-1]
	}
	return e.merge(outs)
}

func (e *Eng) execRange(st *State, s *ast.RangeStmt) *State {
	x := e.eval(st, s.X)
	xt := e.info.TypeOf(s.X).Underlying()
	invs := e.loopInvsIn(st)
	ord := e.loopOrd
	// hidden index variable
	idxObj := types.NewVar(token.NoPos, nil, fmt.Sprintf("idx%d", ord), types.Typ[types.Int])
	st.vars[idxObj] = scalar("0", "Int", types.Typ[types.Int])
	// the value being ranged over is evaluated once; contracts may refer to it as range<ord>
	if x != nil && (x.Sort == "Slice" || x.Sort == "Str") {
		rv := *x
		if rv.Go == nil {
			rv.Go = e.info.TypeOf(s.X)
		}
		st.vars[types.NewVar(token.NoPos, nil, fmt.Sprintf("range%d", ord), e.info.TypeOf(s.X))] = &rv
	}
	var ln string
	switch xt.(type) {
	case *types.Slice:
		ln = x.Elems[2].T
	case *types.Basic:
		ln = "(slen " + x.T + ")"
	case *types.Map:
		e.gap("range over map: iteration abstracted (body executed for an arbitrary key, count unknown)")
		ln = e.freshVal("maplen", types.Typ[types.Int]).T
		e.decls = append(e.decls, fmt.Sprintf("(assert (>= %s 0))", ln))
	default:
		e.gap("range over %T abstracted", xt)
		ln = e.freshVal("rangelen", types.Typ[types.Int]).T
	}
	bindKV := func(b *State) {
		iv := b.vars[idxObj]
		if s.Key != nil {
			if id, ok := s.Key.(*ast.Ident); ok && id.Name != "_" {
				switch mt := xt.(type) {
				case *types.Map:
					b.vars[e.info.ObjectOf(id)] = e.freshVal("key", mt.Key())
				default:
					b.vars[e.info.ObjectOf(id)] = iv
				}
			}
		}
		if s.Value != nil {
			if id, ok := s.Value.(*ast.Ident); ok && id.Name != "_" {
				obj := e.info.ObjectOf(id)
				switch t := xt.(type) {
				case *types.Slice:
					b.vars[obj] = e.elemRead(b, t.Elem(), x, iv.T)
				case *types.Basic:
					e.ensureRunes()
					r := scalar(fmt.Sprintf("(runeat %s %s)", x.T, iv.T), "Int", types.Typ[types.Rune])
					b.vars[obj] = r
				default:
					b.vars[obj] = e.freshVal("rangeval", obj.Type())
				}
			}
		}
	}
	// entry: define key/value objects so invariants may mention them? (only idx & others)
	e.checkInvs(st, invs, ord, "entry", s.Pos())
	mod, heap := e.assignedVars(e.info, s.Body)
	head := st.clone()
	e.havocVars(head, mod, s.Body)
	e.havocLoopHeap(head, s.Body, heap)
	iv := e.freshVal(fmt.Sprintf("i%d", ord), types.Typ[types.Int])
	head.vars[idxObj] = iv
	hp := e.declare(e.fresh("loophead"), "Bool")
	head.path = hp
	e.decls = append(e.decls, fmt.Sprintf("(assert (=> %s %s))", hp, st.path))
	e.assume(head, fmt.Sprintf("(and (<= 0 %s) (<= %s %s))", iv.T, iv.T, ln))
	e.assumeInvs(head, invs)
	cond := fmt.Sprintf("(< %s %s)", iv.T, ln)
	b := e.branch(head, cond)
	bindKV(b)
	step := "1"
	if _, isStr := xt.(*types.Basic); isStr {
		e.ensureRunes()
		step = fmt.Sprintf("(runew %s %s)", x.T, iv.T)
	}
	nex := len(e.exits)
	e.loopNest++
	body := e.execBlock(b, s.Body.List)
	e.loopNest--
	conts := append(e.takeExits(nex, ExitContinue, ""), body)
	for bi, back := range conts {
		if back == nil {
			continue
		}
		back.vars[idxObj] = scalar(fmt.Sprintf("(+ %s %s)", iv.T, step), "Int", types.Typ[types.Int])
		e.checkInvs(back, invs, ord, fmt.Sprintf("preserved/back-edge%d", bi+1), s.Pos())
		e.checkSteps(head, back, ord, s.Pos())
	}
	exit := e.branch(head, not(cond))
	outs := append(e.takeExits(nex, ExitBreak, ""), exit)
	return e.merge(outs)
}

func (e *Eng) ensureRunes() {
	if e.runesDone {
		return
	}
	e.runesDone = true
	e.decls = append(e.decls,
		"(declare-fun runeat (Str Int) Int)", "(declare-fun runew (Str Int) Int)", "(declare-fun runeok (Str Int) Bool)",
		`(assert (forall ((s Str) (i Int)) (! (=> (and (<= 0 i) (< i (slen s)))
   (and (<= 1 (runew s i) 4) (<= (+ i (runew s i)) (slen s)) (<= 0 (runeat s i) 1114111)
        (<= 0 (sbyte s i) 255)
        (=> (< (sbyte s i) 128) (and (= (runew s i) 1) (= (runeat s i) (sbyte s i)) (runeok s i)))
        (=> (>= (sbyte s i) 128) (>= (runeat s i) 128))
        (=> (not (runeok s i)) (and (= (runeat s i) 65533) (= (runew s i) 1)))
        (=> (or (and (<= 128 (sbyte s i)) (<= (sbyte s i) 193)) (>= (sbyte s i) 245)) (not (runeok s i)))))
   :pattern ((runeat s i)) :pattern ((runew s i)))))`)
}

// execGo: the spawned function's body is executed on a copy of the current state so that its call-site
// obligations (gates, preconditions) are checked under the spawner's path condition, and the spawn rule is
// imposed: no panic may leave a goroutine (it would kill the process). The spawner continues with the heap and
// every variable the goroutine assigns unknown. Interleavings are not modelled.
func (e *Eng) execGo(st *State, s *ast.GoStmt) *State {
	fun := ast.Unparen(s.Call.Fun)
	var lit *ast.FuncLit
	if fl, ok := fun.(*ast.FuncLit); ok {
		lit = fl
	} else if id, ok := fun.(*ast.Ident); ok {
		if v, ok := st.vars[e.info.ObjectOf(id)]; ok && v != nil && v.Lit != nil {
			lit = v.Lit
		}
	}
	var args []*Val
	for _, a := range s.Call.Args {
		args = append(args, e.eval(st, a))
	}
	if lit == nil {
		// anchored preconditions of the spawned call are checked at the spawn point
		if cls, text := e.anchorClauses(s.Call); len(cls) > 0 {
			env := e.specEnvFromState(st)
			for i, a := range args {
				env[fmt.Sprintf("arg%d", i)] = a
			}
			env["nargs"] = scalar(fmt.Sprint(len(args)), "Int", nil)
			for _, c := range cls {
				if c.Kind == "requires" {
					g := e.evalSpec(st, c.Expr, env, e.oldEnv)
					e.oblige(st, "at", "go "+shortText(text)+" requires "+c.Src, g.T, s.Pos())
				}
			}
		}
		e.gap("go statement on a non-literal function: effects havocked, spawn rule not checked (%s)", e.src(s.Call))
		key, _, _ := calleeKey(e.info, s.Call)
		if e.con != nil && (e.con.Safe || e.con.GoSafe) && strings.Contains(key, repoModule) {
			// a goroutine started on a gqlgen function: that function must itself be under a contract that speaks
			// about panics (a panic on it kills the process), and its preconditions hold at the spawn
			con := e.contracts.lookup(key, e.declPkg())
			if con == nil {
				e.oblige(st, "safe", "spawned-own-function-without-contract "+shortKey(key), "false", s.Pos())
			} else {
				if !con.Trusted && !(con.Safe || con.NoPanic || con.NoEscape || con.AssumeNoPanic) {
					e.oblige(st, "safe", "spawned-own-function-contract-silent-on-panics "+shortKey(key), "false", s.Pos())
				}
				if len(con.Requires) > 0 {
					cenv := map[string]*Val{}
					for i, pn := range con.Params {
						if i < len(args) {
							cenv[pn] = args[i]
						}
					}
					if sel, ok := ast.Unparen(s.Call.Fun).(*ast.SelectorExpr); ok {
						if fn, ok := e.info.ObjectOf(sel.Sel).(*types.Func); ok {
							if sig, ok := fn.Type().(*types.Signature); ok && sig.Recv() != nil {
								rv := e.eval(st, sel.X)
								cenv[sig.Recv().Name()] = rv
								cenv["recv"] = rv
							}
						}
					}
					for _, rq := range con.Requires {
						g := e.evalSpec(st, rq, cenv, cenv)
						e.oblige(st, "pre", "go "+shortKey(key)+" requires "+rq.String(), g.T, s.Pos())
					}
				}
			}
		}
		if key != "" {
			st.counters["go:"+key] = fmt.Sprintf("(+ %s 1)", counterOf(st, "go:"+key))
		}
		st.counters["spawn"] = fmt.Sprintf("(+ %s 1)", counterOf(st, "spawn"))
		e.havocHeap(st)
		return st
	}
	e.goOrd++
	ord := e.goOrd
	child := st.clone()
	child.defers = nil
	child.counters = map[string]string{} // calls(...) inside a goroutine count from its start
	before := len(e.exits)
	e.inGo++
	gout, _ := e.execClosure(child, lit, args)
	e.inGo--
	if gout != nil && e.con != nil {
		for i, ge := range e.con.GoEnsures {
			if i < len(e.con.GoEnsProp) && e.con.GoEnsProp[i] != "" && e.con.GoEnsProp[i] != e.propID {
				continue
			}
			g := e.evalSpec(gout, ge, e.specEnvFromState(gout), e.oldEnv)
			e.oblige(gout, "goensures", fmt.Sprintf("goroutine%d#%d", ord, i+1), g.T, s.Pos())
		}
	}
	// panics that escaped the goroutine body
	var keep []Exit
	for i, x := range e.exits {
		if i >= before && x.Kind == ExitPanic {
			if e.con != nil && (e.con.NoEscape || e.con.Safe || e.con.NoPanic || e.con.GoSafe) && x.St != nil {
				e.oblige(x.St, "go", fmt.Sprintf("goroutine%d panic escapes", ord), "false", x.Pos)
			}
			continue
		}
		keep = append(keep, x)
	}
	e.exits = keep
	for o := range e.assignedIn(lit) {
		if _, ok := st.vars[o]; ok {
			st.vars[o] = e.freshVal("go."+o.Name(), o.Type())
		}
	}
	st.counters["spawn"] = fmt.Sprintf("(+ %s 1)", counterOf(st, "spawn"))
	e.havocHeap(st)
	return st
}

// evalRecv evaluates the channel operand of a receive expression (its calls are real calls, e.g. ctx.Done()).
func (e *Eng) evalRecv(st *State, x ast.Expr) {
	if u, ok := ast.Unparen(x).(*ast.UnaryExpr); ok && u.Op == token.ARROW {
		e.eval(st, u.X)
		return
	}
	e.eval(st, x)
}

// implTerm: "the dynamic type of v implements interface type t" as a deterministic uninterpreted predicate of
// the dynamic type (so that two tests of the same value agree).
func (e *Eng) implTerm(v *Val, t types.Type) string {
	e.declareOnce("(declare-fun impl (Int Int) Bool)")
	return fmt.Sprintf("(impl %d (itag %s))", e.tagOf(t), v.T)
}

// rhsNonNull: the assigned value is the result of a generated field function that completes a NonNull GraphQL
// type - recognised by the callee ending in a call to a marshalN... function (gqlgen derives that name from the
// schema type, independently of the object template that is being checked).
func (e *Eng) rhsNonNull(rhs ast.Expr) bool {
	call, ok := ast.Unparen(rhs).(*ast.CallExpr)
	if !ok || e.funcIndex == nil {
		return false
	}
	// root fields are wrapped: RootResolverMiddleware(ctx, func(ctx) Marshaler { return ec._T_f(ctx, field) })
	for _, a := range call.Args {
		if fl, ok := ast.Unparen(a).(*ast.FuncLit); ok {
			res := false
			ast.Inspect(fl.Body, func(n ast.Node) bool {
				if rs, ok := n.(*ast.ReturnStmt); ok && len(rs.Results) == 1 {
					if e.rhsNonNull(rs.Results[0]) {
						res = true
					}
				}
				return true
			})
			if res {
				return true
			}
		}
	}
	key, sig, _ := calleeKey(e.info, call)
	if sig == nil {
		return false
	}
	ref := e.funcIndex.byKey[key]
	if ref == nil || ref.fd.Body == nil {
		return false
	}
	nn := false
	ast.Inspect(ref.fd.Body, func(n ast.Node) bool {
		if _, isLit := n.(*ast.FuncLit); isLit {
			return false
		}
		rs, ok := n.(*ast.ReturnStmt)
		if !ok || len(rs.Results) != 1 {
			return true
		}
		if c, ok := ast.Unparen(rs.Results[0]).(*ast.CallExpr); ok {
			name := ""
			switch f := c.Fun.(type) {
			case *ast.SelectorExpr:
				name = f.Sel.Name
			case *ast.Ident:
				name = f.Name
			}
			if strings.HasPrefix(name, "marshalN") {
				nn = true
			}
		}
		return true
	})
	return nn
}
