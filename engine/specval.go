package main

import (
	"fmt"
	"go/ast"
	"go/types"
	"sort"
	"strconv"
	"strings"
)

// evalSpec evaluates a spec expression to a Val (Bool for assertions).
// env: names -> values in the current state; old: names at entry.
func (e *Eng) evalSpec(st *State, x *SExpr, env map[string]*Val, old map[string]*Val) *Val {
	switch x.Kind {
	case SIntLit:
		return scalar(x.Name, "Int", types.Typ[types.Int])
	case SStrLit:
		s, _ := strconv.Unquote(x.Name)
		return scalar(e.strLit(s), "Str", types.Typ[types.String])
	case SCharLit:
		s, _ := strconv.Unquote(x.Name)
		return scalar(fmt.Sprint(int([]rune(s)[0])), "Int", types.Typ[types.Rune])
	case SIdent:
		switch x.Name {
		case "true", "false":
			return scalar(x.Name, "Bool", types.Typ[types.Bool])
		case "nil":
			return &Val{Sort: "Nil", T: "0"}
		case "MaxInt", "MaxInt64":
			return scalar("MAXI64", "Int", nil)
		case "MinInt", "MinInt64":
			return scalar("MINI64", "Int", nil)
		case "MaxInt32":
			return scalar("2147483647", "Int", nil)
		case "MinInt32":
			return scalar("(- 2147483648)", "Int", nil)
		case "MaxUint32":
			return scalar("4294967295", "Int", nil)
		case "MaxUint64":
			return scalar("18446744073709551615", "Int", nil)
		}
		if v, ok := env[x.Name]; ok {
			return v
		}
		if obj := e.pkg.Types.Scope().Lookup(x.Name); obj != nil {
			if c, ok := obj.(*types.Const); ok {
				return constToVal(e, types.TypeAndValue{Type: c.Type(), Value: c.Val()})
			}
		}
		// a clause of a callee's contract is written in the callee's package: resolve its constants there
		if e.specPkgPath != "" {
			if p := e.findPkg(e.specPkgPath); p != nil {
				if obj := p.Scope().Lookup(x.Name); obj != nil {
					if c, ok := obj.(*types.Const); ok {
						return constToVal(e, types.TypeAndValue{Type: c.Type(), Value: c.Val()})
					}
				}
			}
		}
		panic(fmt.Sprintf("spec: unknown identifier %q", x.Name))
	case SUnary:
		v := e.evalSpec(st, x.Args[0], env, old)
		if x.Name == "!" {
			return scalar(not(v.T), "Bool", nil)
		}
		return scalar("(- "+v.T+")", "Int", nil)
	case SBinary:
		l := e.evalSpec(st, x.Args[0], env, old)
		r := e.evalSpec(st, x.Args[1], env, old)
		switch x.Name {
		case "==>":
			return scalar(fmt.Sprintf("(=> %s %s)", l.T, r.T), "Bool", nil)
		case "<==>":
			return scalar(fmt.Sprintf("(= %s %s)", l.T, r.T), "Bool", nil)
		case "&&":
			return scalar(fmt.Sprintf("(and %s %s)", l.T, r.T), "Bool", nil)
		case "||":
			return scalar(fmt.Sprintf("(or %s %s)", l.T, r.T), "Bool", nil)
		case "==", "!=":
			var eq string
			switch {
			case l.Sort == "Nil" || r.Sort == "Nil":
				o := l
				if l.Sort == "Nil" {
					o = r
				}
				switch o.Sort {
				case "Iface":
					eq = fmt.Sprintf("(= (itag %s) 0)", o.T)
				case "Slice":
					eq = fmt.Sprintf("(= %s 0)", o.Elems[0].T)
				default:
					eq = fmt.Sprintf("(= %s 0)", o.T)
				}
			case l.Sort == "Str" && r.Sort == "Str" && (l.T == e.strLit("") || r.T == e.strLit("")):
				o := l
				if l.T == e.strLit("") {
					o = r
				}
				eq = fmt.Sprintf("(= (slen %s) 0)", o.T)
			case l.Sort == "Slice" && r.Sort == "Slice":
				eq = fmt.Sprintf("(and (= %s %s) (= %s %s) (= %s %s))", l.Elems[0].T, r.Elems[0].T, l.Elems[1].T, r.Elems[1].T, l.Elems[2].T, r.Elems[2].T)
			case l.Sort == "Iface" && r.Sort != "Iface":
				eq = fmt.Sprintf("(= %s %s)", l.T, e.toIface(r, r.Go).T)
			case r.Sort == "Iface" && l.Sort != "Iface":
				eq = fmt.Sprintf("(= %s %s)", e.toIface(l, l.Go).T, r.T)
			default:
				eq = fmt.Sprintf("(= %s %s)", l.T, r.T)
			}
			if x.Name == "!=" {
				eq = not(eq)
			}
			return scalar(eq, "Bool", nil)
		case "<", "<=", ">", ">=":
			return scalar(fmt.Sprintf("(%s %s %s)", x.Name, l.T, r.T), "Bool", nil)
		case "+", "-", "*":
			if x.Name == "+" && l.Sort == "Str" && r.Sort == "Str" {
				e.declareOnce("(declare-fun sconcat (Str Str) Str)")
				return scalar(fmt.Sprintf("(sconcat %s %s)", l.T, r.T), "Str", nil)
			}
			return scalar(fmt.Sprintf("(%s %s %s)", x.Name, l.T, r.T), "Int", nil) // mathematical
		case "/":
			return scalar(fmt.Sprintf("(div %s %s)", l.T, r.T), "Int", nil)
		case "%":
			return scalar(fmt.Sprintf("(mod %s %s)", l.T, r.T), "Int", nil)
		}
	case SCall:
		fn := x.Args[0]
		if fn.Kind == SIdent {
			switch fn.Name {
			case "prev":
				if e.prevState == nil {
					panic("spec: prev() outside a step clause")
				}
				return e.evalSpec(e.prevState, x.Args[1], e.specEnvFromState(e.prevState), old)
			case "old":
				ost := st
				if e.oldState != nil {
					ost = e.oldState
				}
				return e.evalSpec(ost, x.Args[1], old, old)
			case "len":
				v := e.evalSpec(st, x.Args[1], env, old)
				if v.Sort == "Str" {
					return scalar("(slen "+v.T+")", "Int", nil)
				}
				if v.Sort == "Slice" {
					return v.Elems[2]
				}
				panic("spec: len of " + v.Sort)
			case "ite":
				c := e.evalSpec(st, x.Args[1], env, old)
				a := e.evalSpec(st, x.Args[2], env, old)
				b := e.evalSpec(st, x.Args[3], env, old)
				return scalar(fmt.Sprintf("(ite %s %s %s)", c.T, a.T, b.T), a.Sort, a.Go)
			case "min", "max":
				a := e.evalSpec(st, x.Args[1], env, old)
				b := e.evalSpec(st, x.Args[2], env, old)
				return scalar(fmt.Sprintf("(i%s %s %s)", fn.Name, a.T, b.T), "Int", nil)
			case "numval":
				a := e.evalSpec(st, x.Args[1], env, old)
				return scalar("(numval "+a.T+")", "Int", nil)
			case "isType":
				// isType(x, "go type string")
				a := e.evalSpec(st, x.Args[1], env, old)
				tn, _ := strconv.Unquote(x.Args[2].Name)
				return scalar(fmt.Sprintf("(= (itag %s) %d)", a.T, e.tagByName(tn)), "Bool", nil)
			case "asInt":
				a := e.evalSpec(st, x.Args[1], env, old)
				return scalar("(iint "+a.T+")", "Int", nil)
			case "local":
				// local(x): x is nil or was allocated by the function under verification
				a := e.evalSpec(st, x.Args[1], env, old)
				e.declareOnce("(declare-fun islocal (Int) Bool)")
				t := a.T
				if a.Sort == "Slice" {
					t = a.Elems[0].T
				}
				if a.Sort == "Iface" {
					// an interface holding a pointer: the pointee is local
					return scalar(fmt.Sprintf("(and ((_ is mkref) %s) (islocal (iref %s)))", a.T, a.T), "Bool", nil)
				}
				return scalar(fmt.Sprintf("(or (= %s 0) (islocal %s))", t, t), "Bool", nil)
			case "declaredHere":
				// declaredHere(v): the variable named v that is visible here is declared inside the function (literal)
				// under verification, i.e. it is not captured from an enclosing function and lives for one call only
				here := false
				if len(x.Args) > 1 && x.Args[1].Name != "" {
					var best types.Object
					for o := range st.vars {
						if o.Name() != x.Args[1].Name {
							continue
						}
						if best == nil || e.prefer(o, best) {
							best = o
						}
					}
					if best != nil {
						// parameters and results count: they are per call too
						lo, hi := e.fnBody().Pos(), e.fnBody().End()
						if e.lit != nil {
							lo = e.lit.Pos()
						} else if e.fn != nil {
							lo = e.fn.Pos()
						}
						here = best.Pos() >= lo && best.Pos() < hi
					}
				}
				return scalar(strconv.FormatBool(here), "Bool", nil)
			case "declaredInEnclosingLoop":
				// declaredInEnclosingLoop(v): the variable named v visible here is declared inside the body of SOME loop
				// that encloses this point (not necessarily the innermost): the iterations of that loop do not share it
				in := false
				if len(x.Args) > 1 && x.Args[1].Name != "" {
					var best types.Object
					for o := range st.vars {
						if o.Name() != x.Args[1].Name {
							continue
						}
						if best == nil || e.prefer(o, best) {
							best = o
						}
					}
					ast.Inspect(e.fnBody(), func(n ast.Node) bool {
						if n == nil {
							return false
						}
						if n.Pos() > e.curPos || n.End() <= e.curPos {
							return n.Pos() <= e.curPos
						}
						var body *ast.BlockStmt
						switch l := n.(type) {
						case *ast.ForStmt:
							body = l.Body
						case *ast.RangeStmt:
							body = l.Body
						}
						if body != nil && best != nil && body.Pos() <= e.curPos && e.curPos < body.End() && best.Pos() >= body.Pos() && best.Pos() < body.End() {
							in = true
						}
						return true
					})
				}
				return scalar(strconv.FormatBool(in), "Bool", nil)
			case "freshPerIteration":
				// freshPerIteration(v): the variable named v visible here is declared inside the body of the innermost
				// loop that encloses this point, i.e. every iteration has its own instance (its address may be handed
				// to something that outlives the iteration)
				fresh := false
				if len(x.Args) > 1 && x.Args[1].Name != "" {
					var best types.Object
					for o := range st.vars {
						if o.Name() != x.Args[1].Name {
							continue
						}
						if best == nil || e.prefer(o, best) {
							best = o
						}
					}
					var loopBody *ast.BlockStmt
					ast.Inspect(e.fnBody(), func(n ast.Node) bool {
						if n == nil {
							return false
						}
						if n.Pos() > e.curPos || n.End() <= e.curPos {
							return n.Pos() <= e.curPos // descend only into nodes that contain the point
						}
						switch l := n.(type) {
						case *ast.ForStmt:
							if l.Body.Pos() <= e.curPos && e.curPos < l.Body.End() {
								loopBody = l.Body
							}
						case *ast.RangeStmt:
							if l.Body.Pos() <= e.curPos && e.curPos < l.Body.End() {
								loopBody = l.Body
							}
						}
						return true
					})
					if best != nil && loopBody != nil {
						fresh = best.Pos() >= loopBody.Pos() && best.Pos() < loopBody.End()
					}
				}
				return scalar(strconv.FormatBool(fresh), "Bool", nil)
			case "litOrd":
				// litOrd(x): x is known to be the n-th function literal (source order, 1-based) of the enclosing
				// declaration; 0 when x is not known to be one of its literals
				a := e.evalSpec(st, x.Args[1], env, old)
				n := 0
				if a != nil && a.Lit != nil && e.fn != nil && e.fn.Body != nil {
					k := 0
					ast.Inspect(e.fn.Body, func(nd ast.Node) bool {
						if fl, ok := nd.(*ast.FuncLit); ok {
							k++
							if fl == a.Lit {
								n = k
							}
						}
						return true
					})
				}
				return scalar(strconv.Itoa(n), "Int", nil)
			case "implements":
				a := e.evalSpec(st, x.Args[1], env, old)
				tn, _ := strconv.Unquote(x.Args[2].Name)
				return scalar(e.implTerm(a, e.resolveTypeName(tn)), "Bool", nil)
			case "deref":
				a := e.evalSpec(st, x.Args[1], env, old)
				if a.Pointee != nil {
					return a.Pointee
				}
				if a.Go != nil {
					if pt, ok := a.Go.Underlying().(*types.Pointer); ok {
						name, _ := e.heapName("P", pt.Elem())
						return e.heapReadComp(st, name, a.T, pt.Elem())
					}
				}
				panic("spec: deref of non-pointer")
			case "isZero":
				a := e.evalSpec(st, x.Args[1], env, old)
				if a.Sort == "Int" && a.Go != nil {
					if p, ok := a.Go.Underlying().(*types.Pointer); ok {
						if _, ok := p.Elem().Underlying().(*types.Struct); ok {
							name, _ := e.heapName("F$", p.Elem())
							_ = name
							var conj []string
							stt := p.Elem().Underlying().(*types.Struct)
							for i := 0; i < stt.NumFields(); i++ {
								fv := e.heapRead(st, a.Go, stt.Field(i).Name(), a.T, stt.Field(i).Type())
								conj = append(conj, e.zeroPred(fv))
							}
							return scalar("(and true "+strings.Join(conj, " ")+")", "Bool", nil)
						}
					}
				}
				return scalar(e.zeroPred(a), "Bool", nil)
			case "asBool":
				a := e.evalSpec(st, x.Args[1], env, old)
				return scalar("(ibool "+a.T+")", "Bool", nil)
			case "asRef":
				a := e.evalSpec(st, x.Args[1], env, old)
				return scalar("(iref "+a.T+")", "Int", nil)
			case "asStr":
				a := e.evalSpec(st, x.Args[1], env, old)
				return scalar("(istr "+a.T+")", "Str", nil)
			case "calls":
				key := strings.Trim(x.Args[1].Name, "\"")
				return scalar(counterSum(st, key), "Int", nil)
			default:
				// uninterpreted spec function over ints/strs declared on demand
				var args []string
				var sorts []string
				var flat func(v *Val)
				flat = func(v *Val) {
					switch v.Sort {
					case "Slice", "Struct", "Tuple":
						for _, el := range v.Elems {
							flat(el)
						}
					case "Nil":
						args = append(args, "0")
						sorts = append(sorts, "Int")
					default:
						args = append(args, v.T)
						sorts = append(sorts, v.Sort)
					}
				}
				for _, a := range x.Args[1:] {
					flat(e.evalSpec(st, a, env, old))
				}
				if sig, ok := e.contracts.SpecSigs[fn.Name]; ok {
					e.declareOnce(fmt.Sprintf("(declare-fun spec_%s (%s) %s)", fn.Name, sig[0], sig[1]))
					return scalar(fmt.Sprintf("(spec_%s %s)", fn.Name, strings.Join(args, " ")), sig[1], nil)
				}
				rs := "Int"
				for _, q := range e.decls {
					if strings.Contains(q, "spec_"+fn.Name+" ") && (strings.HasPrefix(q, "(declare-fun") || strings.HasPrefix(q, "(define-fun")) {
						rs = "Bool"
						if strings.Contains(q, ") Int") {
							rs = "Int"
						}
						return scalar(fmt.Sprintf("(spec_%s %s)", fn.Name, strings.Join(args, " ")), rs, nil)
					}
				}
				if strings.HasPrefix(fn.Name, "is") || strings.HasPrefix(fn.Name, "has") {
					rs = "Bool"
				}
				d := fmt.Sprintf("(declare-fun %s (%s) %s)", "spec_"+fn.Name, strings.Join(sorts, " "), rs)
				found := false
				for _, q := range e.decls {
					if q == d {
						found = true
					}
				}
				if !found {
					e.decls = append(e.decls, d)
				}
				return scalar(fmt.Sprintf("(spec_%s %s)", fn.Name, strings.Join(args, " ")), rs, nil)
			}
		}
	case STypeAssert:
		v := e.evalSpec(st, x.Args[0], env, old)
		t := e.resolveTypeName(x.TypeName)
		r := e.fromIface(v, t)
		r.Go = t
		return r
	case SIndex:
		b := e.evalSpec(st, x.Args[0], env, old)
		i := e.evalSpec(st, x.Args[1], env, old)
		if b.Sort == "Str" {
			return scalar(fmt.Sprintf("(sbyte %s %s)", b.T, i.T), "Int", nil)
		}
		if b.Sort == "Slice" {
			if sl, ok := b.Go.Underlying().(*types.Slice); ok {
				return e.elemRead(st, sl.Elem(), b, i.T)
			}
		}
		if b.Sort == "Int" && b.Go != nil {
			if mt, ok := b.Go.Underlying().(*types.Map); ok {
				v, _ := e.mapRead(st, mt, b.T, e.coerce(i, mt.Key()))
				return v
			}
		}
		panic("spec: index on " + b.Sort)
	case SSlice:
		b := e.evalSpec(st, x.Args[0], env, old)
		lo, hi := "0", ""
		if x.Args[1] != nil {
			lo = e.evalSpec(st, x.Args[1], env, old).T
		}
		if b.Sort == "Str" {
			hi = "(slen " + b.T + ")"
			if x.Args[2] != nil {
				hi = e.evalSpec(st, x.Args[2], env, old).T
			}
			e.ensureSubstr()
			return scalar(fmt.Sprintf("(substr %s %s %s)", b.T, lo, hi), "Str", b.Go)
		}
		panic("spec: slice expression on " + b.Sort)
	case SQuant:
		inner := map[string]*Val{}
		for k, v := range env {
			inner[k] = v
		}
		var binds []string
		for i, v := range x.QVars {
			srt := "Int"
			if x.QTypes[i] == "string" {
				srt = "Str"
			}
			n := smtSym("q!" + v)
			inner[v] = scalar(n, srt, nil)
			binds = append(binds, fmt.Sprintf("(%s %s)", n, srt))
		}
		body := e.evalSpec(st, x.Args[0], inner, old)
		return scalar(fmt.Sprintf("(%s (%s) %s)", x.Name, strings.Join(binds, " "), body.T), "Bool", nil)
	case SSelector:
		if x.Args[0].Kind == SIdent {
			if _, isLocal := env[x.Args[0].Name]; !isLocal {
				for _, imp := range e.pkg.Types.Imports() {
					if imp.Name() == x.Args[0].Name {
						if obj := imp.Scope().Lookup(x.Name); obj != nil {
							if c, ok := obj.(*types.Const); ok {
								return constToVal(e, types.TypeAndValue{Type: c.Type(), Value: c.Val()})
							}
							return e.globalVal("G$"+imp.Name()+"."+obj.Name(), obj.Type())
						}
					}
				}
			}
		}
		b := e.evalSpec(st, x.Args[0], env, old)
		if b.Sort == "Struct" {
			if f := b.field(x.Name); f != nil {
				return f
			}
		}
		if b.Sort == "Int" && b.Go != nil {
			if p, ok := b.Go.Underlying().(*types.Pointer); ok {
				if stt, ok := p.Elem().Underlying().(*types.Struct); ok {
					for i := 0; i < stt.NumFields(); i++ {
						if stt.Field(i).Name() == x.Name {
							return e.heapRead(st, b.Go, x.Name, b.T, stt.Field(i).Type())
						}
					}
				}
			}
		}
		if b.Go != nil {
			// promoted field through embedded structs / pointers
			if obj, index, _ := types.LookupFieldOrMethod(b.Go, true, e.pkg.Types, x.Name); obj != nil && len(index) > 1 {
				if _, isVar := obj.(*types.Var); isVar {
					cur, curT := b, b.Go
					for _, i := range index {
						var stt *types.Struct
						isPtr := false
						if p, ok := curT.Underlying().(*types.Pointer); ok {
							isPtr = true
							stt, _ = p.Elem().Underlying().(*types.Struct)
						} else {
							stt, _ = curT.Underlying().(*types.Struct)
						}
						if stt == nil {
							break
						}
						f := stt.Field(i)
						if isPtr {
							cur = e.heapRead(st, curT, f.Name(), cur.T, f.Type())
						} else if fv := cur.field(f.Name()); fv != nil {
							cur = fv
						} else {
							break
						}
						if cur.Go == nil {
							cur.Go = f.Type()
						}
						curT = f.Type()
					}
					return cur
				}
			}
		}
		panic("spec: selector " + x.Name + " on " + b.Sort)
	}
	panic("spec: unsupported " + x.String())
}

func (e *Eng) tagByName(tn string) int {
	return e.tagOf(e.resolveTypeName(tn))
}

// resolveTypeName turns a Go type written in a contract ("int64", "encoding/json.Number", "[]any",
// "map[string]any", "*github.com/x/y.T", "*ast.Field" using the package's import names) into a types.Type.
func (e *Eng) resolveTypeName(tn string) types.Type {
	tn = strings.TrimSpace(tn)
	tn = strings.ReplaceAll(tn, "interface {}", "any")
	tn = strings.ReplaceAll(tn, "interface{}", "any")
	switch {
	case tn == "any":
		return types.NewInterfaceType(nil, nil)
	case tn == "error":
		return types.Universe.Lookup("error").Type()
	case strings.HasPrefix(tn, "*"):
		return types.NewPointer(e.resolveTypeName(tn[1:]))
	case strings.HasPrefix(tn, "[]"):
		return types.NewSlice(e.resolveTypeName(tn[2:]))
	case strings.HasPrefix(tn, "map["):
		depth := 0
		for i := 3; i < len(tn); i++ {
			switch tn[i] {
			case '[':
				depth++
			case ']':
				depth--
				if depth == 0 {
					return types.NewMap(e.resolveTypeName(tn[4:i]), e.resolveTypeName(tn[i+1:]))
				}
			}
		}
	}
	if obj := types.Universe.Lookup(tn); obj != nil {
		if _, ok := obj.(*types.TypeName); ok {
			return obj.Type()
		}
	}
	if i := strings.LastIndex(tn, "."); i >= 0 {
		pk, name := tn[:i], tn[i+1:]
		var found types.Type
		var visit func(p *types.Package, seen map[*types.Package]bool)
		visit = func(p *types.Package, seen map[*types.Package]bool) {
			if seen[p] || found != nil {
				return
			}
			seen[p] = true
			if p.Path() == pk || (!strings.Contains(pk, "/") && p.Name() == pk) {
				if obj := p.Scope().Lookup(name); obj != nil {
					if _, ok := obj.(*types.TypeName); ok {
						found = obj.Type()
						return
					}
				}
			}
			for _, imp := range p.Imports() {
				visit(imp, seen)
			}
		}
		visit(e.pkg.Types, map[*types.Package]bool{})
		if found != nil {
			return found
		}
	} else if obj := e.pkg.Types.Scope().Lookup(tn); obj != nil {
		if _, ok := obj.(*types.TypeName); ok {
			return obj.Type()
		}
	}
	panic("spec: cannot resolve type name " + tn)
}

// counterSum adds up the call counters whose callee key equals name or ends with .name / ).name
func counterSum(st *State, name string) string {
	if c, ok := st.counters[name]; ok {
		return c
	}
	var keys []string
	for k := range st.counters {
		if strings.HasSuffix(k, "."+name) || strings.HasSuffix(k, ")."+name) || strings.HasSuffix(k, ":"+name) || globName(name, k) {
			keys = append(keys, k)
		}
	}
	if len(keys) == 0 {
		return "0"
	}
	sort.Strings(keys)
	t := st.counters[keys[0]]
	for _, k := range keys[1:] {
		t = "(+ " + t + " " + st.counters[k] + ")"
	}
	return t
}

// zeroPred: the value is the zero value of its type (every component, recursively).
func (e *Eng) zeroPred(v *Val) string {
	switch v.Sort {
	case "Int":
		return "(= " + v.T + " 0)"
	case "Bool":
		return "(not " + v.T + ")"
	case "Str":
		return "(= (slen " + v.T + ") 0)"
	case "Iface":
		return "(= (itag " + v.T + ") 0)"
	case "Slice":
		return "(= " + v.Elems[0].T + " 0)"
	case "Struct", "Tuple":
		parts := []string{"true"}
		for _, el := range v.Elems {
			parts = append(parts, e.zeroPred(el))
		}
		return "(and " + strings.Join(parts, " ") + ")"
	}
	return "true"
}

func (e *Eng) findPkg(path string) *types.Package {
	var found *types.Package
	var visit func(p *types.Package, seen map[*types.Package]bool)
	visit = func(p *types.Package, seen map[*types.Package]bool) {
		if seen[p] || found != nil {
			return
		}
		seen[p] = true
		if p.Path() == path {
			found = p
			return
		}
		for _, imp := range p.Imports() {
			visit(imp, seen)
		}
	}
	visit(e.pkg.Types, map[*types.Package]bool{})
	return found
}
