package main

import "fmt"

func runSelftest(ids []string) int {
	fmt.Println("selftest: see /verif/selftest/run.sh")
	return 0
}
