package main

// Counterexample replay: a `sat` answer is turned into concrete Go values for the entry parameters of the
// function, inserted into a replay template (an in-package _test.go that calls the REAL function and checks an
// independent oracle), and run through `go test -overlay` against the working tree (nothing is written to /repo).

import (
	"bytes"
	"context"
	"encoding/json"
	"fmt"
	"os"
	"os/exec"
	"path/filepath"
	"regexp"
	"strconv"
	"strings"
	"text/template"
	"time"
)

type ReplayResult struct {
	Template   string `json:"template"`
	Inputs     string `json:"inputs"`
	Reproduced bool   `json:"reproduced"`
	Cmd        string `json:"cmd"`
	PkgDir     string `json:"pkg_dir"`
	TestSource string `json:"test_source"`
	TestOutput string `json:"test_output"`
	Note       string `json:"note,omitempty"`
}

func runZ3(script string, timeoutS int) string {
	dir, _ := os.MkdirTemp("", "gocvm")
	defer os.RemoveAll(dir)
	p := filepath.Join(dir, "m.smt2")
	os.WriteFile(p, []byte(script), 0o644)
	ctx, cancel := context.WithTimeout(context.Background(), time.Duration(timeoutS+2)*time.Second)
	defer cancel()
	out, _ := exec.CommandContext(ctx, "z3-new", "-smt2", fmt.Sprintf("-T:%d", timeoutS), p).CombinedOutput()
	return string(out)
}

var getValRe = regexp.MustCompile(`\(\s*(\|[^|]*\||\([^()]*(?:\([^()]*\)[^()]*)*\)|[^\s()]+)\s+(\(-\s*\d+\)|\d+|true|false|[^\s()]+)\)`)

// parseValues parses the answer of (get-value (t1 t2 ...)) for terms whose values are ints or bools.
func parseValues(out string, terms []string) map[string]string {
	res := map[string]string{}
	// take everything after the first line (sat)
	i := strings.Index(out, "\n")
	if i < 0 {
		return res
	}
	body := out[i+1:]
	// sequential scan: for each term in order, find "(<term> <value>)"
	pos := 0
	for _, t := range terms {
		k := strings.Index(body[pos:], "("+t+" ")
		if k < 0 {
			continue
		}
		start := pos + k + len(t) + 2
		rest := strings.TrimLeft(body[start:], " \n")
		var val string
		if strings.HasPrefix(rest, "(-") {
			j := strings.Index(rest, ")")
			val = "-" + strings.TrimSpace(rest[2:j])
		} else {
			j := strings.IndexAny(rest, ") \n")
			val = rest[:j]
		}
		res[t] = val
		pos = start
	}
	return res
}

func stripTail(script string) string {
	i := strings.LastIndex(script, "(check-sat)")
	if i < 0 {
		return script
	}
	return script[:i]
}

// modelValues extracts Go literals for the entry parameters from a sat obligation.
func (s *Session) modelValues(u *Unit, o *Obligation) (map[string]string, string) {
	base := stripTail(o.Script)
	// collect string and iface symbols
	var strs, ifaces, ints, bools []ParamSym
	var walk func(prefix string, p ParamSym)
	walk = func(prefix string, p ParamSym) {
		name := p.Name
		if prefix != "" {
			name = prefix + "." + p.Name
		}
		q := p
		q.Name = name
		switch p.Sort {
		case "Int":
			ints = append(ints, q)
		case "Bool":
			bools = append(bools, q)
		case "Str":
			strs = append(strs, q)
		case "Iface":
			ifaces = append(ifaces, q)
		case "Slice", "Struct", "Tuple":
			for _, sub := range p.Sub {
				walk(name, sub)
			}
		}
	}
	for _, p := range u.Entry {
		walk("", p)
	}
	// round 1: small model preference
	var bounds strings.Builder
	for _, p := range strs {
		fmt.Fprintf(&bounds, "(assert (<= (slen %s) 12))\n", p.Term)
	}
	for _, p := range ifaces {
		fmt.Fprintf(&bounds, "(assert (=> ((_ is mkstr) %s) (<= (slen (istr %s)) 12)))\n", p.Term, p.Term)
	}
	var terms []string
	for _, p := range ints {
		terms = append(terms, p.Term)
	}
	for _, p := range bools {
		terms = append(terms, p.Term)
	}
	for _, p := range strs {
		terms = append(terms, "(slen "+p.Term+")")
	}
	for _, p := range ifaces {
		terms = append(terms, "(itag "+p.Term+")")
	}
	if len(terms) == 0 {
		return nil, "no scalar entry symbols"
	}
	q := func(extra string, ts []string) (string, map[string]string) {
		out := runZ3(base+extra+"(check-sat)\n(get-value ("+strings.Join(ts, " ")+"))\n", 10)
		first := strings.TrimSpace(strings.SplitN(out, "\n", 2)[0])
		if first != "sat" {
			return first, nil
		}
		return "sat", parseValues(out, ts)
	}
	pin := bounds.String()
	stt, vals := q(pin, terms)
	if stt != "sat" {
		pin = ""
		stt, vals = q("", terms)
		if stt != "sat" {
			return nil, "model query answered " + stt
		}
	}
	// round 2: pin round-1 values, ask for bytes and payloads
	var pins strings.Builder
	pins.WriteString(pin)
	var t2 []string
	for _, t := range terms {
		if v, ok := vals[t]; ok {
			fmt.Fprintf(&pins, "(assert (= %s %s))\n", t, smtLit(v))
		}
	}
	type strReq struct {
		name, term string
		n          int
	}
	var sreqs []strReq
	for _, p := range strs {
		n, _ := strconv.Atoi(vals["(slen "+p.Term+")"])
		if n > 256 {
			return nil, "model string too long"
		}
		sreqs = append(sreqs, strReq{p.Name, p.Term, n})
	}
	type ifReq struct {
		p    ParamSym
		tag  int
		kind int
	}
	var ireqs []ifReq
	for _, p := range ifaces {
		tag, _ := strconv.Atoi(vals["(itag "+p.Term+")"])
		ireqs = append(ireqs, ifReq{p, tag, tag % 10})
		switch tag % 10 {
		case 1:
			t2 = append(t2, "(iint "+p.Term+")")
		case 2:
			t2 = append(t2, "(slen (istr "+p.Term+"))")
		case 3:
			t2 = append(t2, "(iref "+p.Term+")")
		case 4:
			t2 = append(t2, "(ibool "+p.Term+")")
		case 5:
			t2 = append(t2, "(islen "+p.Term+")")
		}
	}
	for _, r := range sreqs {
		for i := 0; i < r.n; i++ {
			t2 = append(t2, fmt.Sprintf("(sbyte %s %d)", r.term, i))
		}
	}
	vals2 := map[string]string{}
	if len(t2) > 0 {
		st2, v2 := q(pins.String(), t2)
		if st2 != "sat" {
			return nil, "second model query answered " + st2
		}
		vals2 = v2
	}
	// round 3: bytes of boxed strings
	var t3 []string
	for _, r := range ireqs {
		if r.kind == 2 {
			n, _ := strconv.Atoi(vals2["(slen (istr "+r.p.Term+"))"])
			if n > 256 {
				return nil, "model string too long"
			}
			fmt.Fprintf(&pins, "(assert (= (slen (istr %s)) %d))\n", r.p.Term, n)
			for i := 0; i < n; i++ {
				t3 = append(t3, fmt.Sprintf("(sbyte (istr %s) %d)", r.p.Term, i))
			}
		}
	}
	vals3 := map[string]string{}
	if len(t3) > 0 {
		st3, v3 := q(pins.String(), t3)
		if st3 != "sat" {
			return nil, "third model query answered " + st3
		}
		vals3 = v3
	}
	res := map[string]string{}
	var desc []string
	key := func(n string) string { return strings.ReplaceAll(n, ".", "_") }
	for _, p := range ints {
		res[key(p.Name)] = vals[p.Term]
		desc = append(desc, p.Name+"="+vals[p.Term])
	}
	for _, p := range bools {
		res[key(p.Name)] = vals[p.Term]
		desc = append(desc, p.Name+"="+vals[p.Term])
	}
	bytesOf := func(m map[string]string, term string, n int) string {
		var b []byte
		for i := 0; i < n; i++ {
			v, _ := strconv.Atoi(m[fmt.Sprintf("(sbyte %s %d)", term, i)])
			b = append(b, byte(v&0xff))
		}
		return goQuote(b)
	}
	for _, r := range sreqs {
		lit := bytesOf(vals2, r.term, r.n)
		res[key(r.name)] = lit
		desc = append(desc, r.name+"="+lit)
	}
	tagName := map[int]string{}
	for n, t := range s.tags {
		tagName[t] = n
	}
	for _, r := range ireqs {
		var lit string
		tn := tagName[r.tag]
		switch r.kind {
		case 0:
			lit = "nil"
			if r.tag != 0 {
				lit = "struct{}{} /* opaque dynamic type */"
			}
		case 1:
			lit = goConv(tn, vals2["(iint "+r.p.Term+")"])
		case 2:
			n, _ := strconv.Atoi(vals2["(slen (istr "+r.p.Term+"))"])
			lit = goConv(tn, bytesOf(vals3, "(istr "+r.p.Term+")", n))
		case 4:
			lit = goConv(tn, vals2["(ibool "+r.p.Term+")"])
		case 3:
			if vals2["(iref "+r.p.Term+")"] == "0" {
				lit = "(" + goTypeExpr(tn) + ")(nil)"
			} else {
				lit = goZeroRef(tn)
			}
		default:
			lit = "struct{ X int }{1} /* unmodelled dynamic type " + tn + " */"
		}
		res[key(r.p.Name)] = lit
		desc = append(desc, r.p.Name+"="+lit)
	}
	return res, strings.Join(desc, ", ")
}

func smtLit(v string) string {
	if strings.HasPrefix(v, "-") {
		return "(- " + v[1:] + ")"
	}
	return v
}

func goQuote(b []byte) string {
	var sb strings.Builder
	sb.WriteByte('"')
	for _, c := range b {
		if c >= 0x20 && c < 0x7f && c != '"' && c != '\\' {
			sb.WriteByte(c)
		} else {
			fmt.Fprintf(&sb, "\\x%02x", c)
		}
	}
	sb.WriteByte('"')
	return sb.String()
}

func goTypeExpr(tn string) string {
	tn = strings.ReplaceAll(tn, "interface{}", "any")
	// strip import paths down to package names
	re := regexp.MustCompile(`[A-Za-z0-9_.\-/]+/([A-Za-z0-9_]+\.)`)
	return re.ReplaceAllString(tn, "$1")
}

func goConv(tn, lit string) string {
	if tn == "" {
		return lit
	}
	return goTypeExpr(tn) + "(" + lit + ")"
}

func goZeroRef(tn string) string {
	t := goTypeExpr(tn)
	switch {
	case strings.HasPrefix(t, "map["):
		return t + "{}"
	case strings.HasPrefix(t, "*"):
		return "new(" + t[1:] + ")"
	}
	return "nil /* " + t + " */"
}

func (s *Session) tryReplay(u *Unit, o *Obligation) *ReplayResult {
	rr := &ReplayResult{Template: u.Con.Replay}
	tb, err := os.ReadFile(filepath.Join(verifRoot, "replay", u.Con.Replay))
	if err != nil {
		rr.Note = "no replay template: " + err.Error()
		return rr
	}
	var vals map[string]string
	var desc string
	if o.Result.Status == "sat" {
		vals, desc = s.modelValues(u, o)
	}
	if vals != nil {
		for _, m := range corpusRe.FindAllStringSubmatch(string(tb), -1) {
			if _, ok := vals[m[1]]; !ok {
				vals = nil // the template is driven by its corpus, not by entry values of the function
				desc = "template variables are not entry values"
				break
			}
		}
	}
	if vals == nil {
		// no model (quantified obligation answered unknown, or extraction failed): search the template's
		// boundary corpus for a witness; every candidate is judged by the oracle on the real code
		return s.corpusReplay(u, o, string(tb), desc)
	}
	rr.Inputs = desc
	tmpl, err := template.New("r").Option("missingkey=error").Parse(string(tb))
	if err != nil {
		rr.Note = "template: " + err.Error()
		return rr
	}
	fn := u.Key
	if i := strings.LastIndex(fn, "."); i >= 0 {
		fn = fn[i+1:]
	}
	data := map[string]string{"Obligation": o.Name, "Func": fn, "Unit": u.Short}
	for k, v := range vals {
		data[k] = v
	}
	var buf bytes.Buffer
	if err := tmpl.Execute(&buf, data); err != nil {
		rr.Note = "template exec: " + err.Error()
		return rr
	}
	rr.TestSource = buf.String()
	m := regexp.MustCompile(`(?m)^// pkgdir: (\S+)`).FindStringSubmatch(rr.TestSource)
	if m == nil {
		rr.Note = "template lacks // pkgdir:"
		return rr
	}
	rr.PkgDir = m[1]
	out, failed, cmd := runOverlayTest(s.replayRepo(), rr.PkgDir, rr.TestSource)
	rr.Cmd = cmd
	rr.TestOutput = trunc(out, 6000)
	rr.Reproduced = failed && strings.Contains(out, "GOCV-REPRODUCED")
	if !rr.Reproduced && len(corpusRe.FindAllStringSubmatch(string(tb), -1)) > 0 {
		// the solver's witness concerns an abstraction (e.g. an unknown helper); try the template's boundary corpus
		if cr := s.corpusReplay(u, o, string(tb), "the model's input did not reproduce: "+desc); cr.Reproduced {
			return cr
		}
	}
	return rr
}

var corpusRe = regexp.MustCompile(`(?m)^// corpus: (\w+) = (.*)$`)

func (s *Session) corpusReplay(u *Unit, o *Obligation, tmplText, why string) *ReplayResult {
	rr := &ReplayResult{Template: u.Con.Replay, Note: "solver gave no usable model (" + why + "); boundary corpus searched"}
	ms := corpusRe.FindAllStringSubmatch(tmplText, -1)
	if len(ms) == 0 {
		rr.Note = "no model and the template has no corpus: " + why
		return rr
	}
	tmpl, err := template.New("r").Option("missingkey=error").Parse(tmplText)
	if err != nil {
		rr.Note = "template: " + err.Error()
		return rr
	}
	fn := u.Key
	if i := strings.LastIndex(fn, "."); i >= 0 {
		fn = fn[i+1:]
	}
	// one-dimensional corpora only (first variable varies, others take their first value)
	var names []string
	var alts [][]string
	for _, m := range ms {
		names = append(names, m[1])
		var a []string
		for _, x := range strings.Split(m[2], " | ") {
			a = append(a, strings.TrimSpace(x))
		}
		alts = append(alts, a)
	}
	pk := regexp.MustCompile(`(?m)^// pkgdir: (\S+)`).FindStringSubmatch(tmplText)
	if pk == nil {
		rr.Note = "template lacks // pkgdir:"
		return rr
	}
	rr.PkgDir = pk[1]
	for vi := range names {
		for _, cand := range alts[vi] {
			data := map[string]string{"Obligation": o.Name, "Func": fn, "Unit": u.Short}
			for j, n := range names {
				data[n] = alts[j][0]
			}
			data[names[vi]] = cand
			var buf bytes.Buffer
			if err := tmpl.Execute(&buf, data); err != nil {
				rr.Note = "template exec: " + err.Error()
				return rr
			}
			out, failed, cmd := runOverlayTest(s.replayRepo(), rr.PkgDir, buf.String())
			if strings.Contains(out, "[setup failed]") || strings.Contains(out, "[build failed]") {
				rr.Note += "; REPLAY TEST DID NOT COMPILE: " + trunc(out, 400)
			}
			if failed && strings.Contains(out, "GOCV-REPRODUCED") {
				rr.Cmd = cmd
				rr.TestSource = buf.String()
				rr.TestOutput = trunc(out, 6000)
				rr.Inputs = names[vi] + "=" + cand + " (found by corpus search, not from a solver model)"
				rr.Reproduced = true
				return rr
			}
		}
	}
	return rr
}

// runOverlayTest runs the given test source as zz_gocv_replay_test.go inside pkgDir of repo via -overlay.
func runOverlayTest(repo, pkgDir, src string) (string, bool, string) {
	dir, _ := os.MkdirTemp("", "gocvr")
	defer os.RemoveAll(dir)
	tf := filepath.Join(dir, "zz_gocv_replay_test.go")
	os.WriteFile(tf, []byte(src), 0o644)
	ov := map[string]any{"Replace": map[string]string{filepath.Join(repo, pkgDir, "zz_gocv_replay_test.go"): tf}}
	ob, _ := json.Marshal(ov)
	ovf := filepath.Join(dir, "ov.json")
	os.WriteFile(ovf, ob, 0o644)
	ctx, cancel := context.WithTimeout(context.Background(), 180*time.Second)
	defer cancel()
	args := []string{"test", "-mod=mod", "-overlay", ovf, "-vet=off", "-count=1", "-timeout", "60s", "-run", "TestGocvReplay", "./" + pkgDir + "/"}
	cmd := exec.CommandContext(ctx, "go", args...)
	cmd.Dir = repo
	cmd.Env = append(os.Environ(), "GOFLAGS=-trimpath", "GOPROXY=off")
	out, err := cmd.CombinedOutput()
	return string(out), err != nil, "cd " + repo + " && go " + strings.Join(args, " ")
}

func runReplayFile(path string) int {
	b, err := os.ReadFile(path)
	if err != nil {
		fmt.Fprintln(os.Stderr, err)
		return 2
	}
	var doc struct {
		Property   string        `json:"property"`
		Obligation string        `json:"obligation"`
		Output     string        `json:"verifier_output"`
		Replay     *ReplayResult `json:"replay"`
	}
	if err := json.Unmarshal(b, &doc); err != nil {
		fmt.Fprintln(os.Stderr, err)
		return 2
	}
	fmt.Printf("property %s, failed obligation %s\n", doc.Property, doc.Obligation)
	if doc.Replay == nil || doc.Replay.TestSource == "" || doc.Replay.PkgDir == "" {
		fmt.Println("no concrete failing input recorded (no-failing-input-found); verifier output:")
		fmt.Println(trunc(doc.Output, 4000))
		return 1
	}
	out, failed, cmd := runOverlayTest(repoDir(), doc.Replay.PkgDir, doc.Replay.TestSource)
	fmt.Println(cmd)
	fmt.Println(out)
	if failed && strings.Contains(out, "GOCV-REPRODUCED") {
		fmt.Println("reproduced: inputs", doc.Replay.Inputs)
		return 1
	}
	fmt.Println("not reproduced on this tree")
	return 0
}

// replayRepo: replays run against the code that was verified - /repo, or for checks over generated code the scratch
// copy in which the generator built from the working tree regenerated the probe packages (the generated files
// checked into /repo may be older than the templates).
func (s *Session) replayRepo() string {
	if s.loadDir != "" {
		return s.loadDir
	}
	return s.repo
}
