package main

// Generated code ("probe-proved" parts): gqlgen's generator is run FROM THE WORKING TREE inside a scratch copy of
// the repository, the generated packages are loaded like any other, and every generated function is classified
// into a family by its name/signature (not by its body); the family contract (declared once in
// /repo/codegen/verif_contracts.go resp. /repo/plugin/federation/verif_contracts.go) is instantiated for each
// member. Results are proofs about those generated programs, not about all schemas.

import (
	"bytes"
	"fmt"
	"go/ast"
	"go/token"
	"go/types"
	"os"
	"os/exec"
	"path/filepath"
	"regexp"
	"sort"
	"strconv"
	"strings"
	"time"
)

func generateProbesImpl(repo string, probes []ProbeConfig, tier string) (string, []ProbeResult, error) {
	scratch, err := os.MkdirTemp("", "gocvprobe")
	if err != nil {
		return "", nil, err
	}
	dst := filepath.Join(scratch, "repo")
	if out, err := exec.Command("rsync", "-a", "--exclude", ".git", "--exclude", "_examples", "--exclude", "docs", repo+"/", dst+"/").CombinedOutput(); err != nil {
		return scratch, nil, fmt.Errorf("rsync: %v: %s", err, out)
	}
	env := append(os.Environ(), "GOFLAGS=-mod=mod -trimpath", "GOPROXY=off")
	gen := filepath.Join(scratch, "gqlgen-gen")
	b := exec.Command("go", "build", "-o", gen, "./testdata/gqlgen.go")
	b.Dir = dst
	b.Env = env
	if out, err := b.CombinedOutput(); err != nil {
		return scratch, nil, fmt.Errorf("building the generator from the working tree failed: %v: %s", err, trunc(string(out), 2000))
	}
	var res []ProbeResult
	for _, p := range probes {
		if p.Tier == "thorough" && tier != "thorough" {
			continue
		}
		t0 := time.Now()
		dir := filepath.Join(dst, p.RepoDir)
		if p.Dir != "" {
			// probe shipped in /verif/probes: copy into the scratch repo
			src := filepath.Join(verifRoot, "probes", p.Dir)
			dir = filepath.Join(dst, p.Dest)
			os.MkdirAll(dir, 0o755)
			if out, err := exec.Command("rsync", "-a", src+"/", dir+"/").CombinedOutput(); err != nil {
				return scratch, nil, fmt.Errorf("copy probe %s: %v: %s", p.Name, err, out)
			}
		}
		for _, rm := range p.Remove {
			os.Remove(filepath.Join(dir, rm))
		}
		args := []string{"-config", p.Config}
		if p.Stub != "" {
			args = append(args, "-stub", p.Stub)
		}
		c := exec.Command(gen, args...)
		c.Dir = dir
		c.Env = env
		var buf bytes.Buffer
		c.Stdout, c.Stderr = &buf, &buf
		if err := c.Run(); err != nil {
			return scratch, nil, fmt.Errorf("generation of probe %s failed: %v: %s", p.Name, err, trunc(buf.String(), 3000))
		}
		res = append(res, ProbeResult{Name: p.Name, Patterns: p.Patterns, GenMs: time.Since(t0).Milliseconds()})
	}
	return dst, res, nil
}

// ---------------------------------------------------------------- classification

func typeStr(t types.Type) string {
	return types.TypeString(t, func(p *types.Package) string { return p.Name() })
}

func hasParamOfType(sig *types.Signature, ts string) bool {
	for i := 0; i < sig.Params().Len(); i++ {
		if typeStr(sig.Params().At(i).Type()) == ts {
			return true
		}
	}
	return false
}

func hasParamNamed(sig *types.Signature, name string) bool {
	for i := 0; i < sig.Params().Len(); i++ {
		if sig.Params().At(i).Name() == name {
			return true
		}
	}
	return false
}

func bodyCalls(fd *ast.FuncDecl, name string) bool {
	found := false
	ast.Inspect(fd.Body, func(n ast.Node) bool {
		if c, ok := n.(*ast.CallExpr); ok {
			switch f := c.Fun.(type) {
			case *ast.SelectorExpr:
				if f.Sel.Name == name {
					found = true
				}
			case *ast.Ident:
				if f.Name == name {
					found = true
				}
			}
		}
		return !found
	})
	return found
}

func bodyMentions(fd *ast.FuncDecl, pkg, name string) bool {
	found := false
	ast.Inspect(fd.Body, func(n ast.Node) bool {
		if s, ok := n.(*ast.SelectorExpr); ok {
			if id, ok := s.X.(*ast.Ident); ok && id.Name == pkg && s.Sel.Name == name {
				found = true
			}
		}
		return !found
	})
	return found
}

// classify assigns a generated function to a family by name and signature.
func classify(ref *funcRef) string {
	fd, obj := ref.fd, ref.obj
	if fd.Body == nil {
		return ""
	}
	sig := obj.Type().(*types.Signature)
	name := obj.Name()
	isEC := false
	if sig.Recv() != nil && strings.HasSuffix(typeStr(sig.Recv().Type()), "executionContext") {
		isEC = true
	}
	if !isEC && hasParamOfType(sig, "*"+ref.pkg.Types.Name()+".executionContext") {
		isEC = true // function syntax variant: ec passed as a parameter
	}
	switch {
	case name == "processDeferredGroup":
		return "deferredgroup"
	case name == "introspectSchema" || name == "introspectType":
		return "introspectgate"
	case name == "__resolve__service":
		return "servicegate"
	case name == "__resolve_entities":
		return "fedentities"
	case name == "resolveEntityGroup":
		return "fedgroup"
	case name == "resolveEntity":
		return "fedentity"
	case name == "resolveManyEntities":
		return "fedmany"
	case name == "buildRepresentationGroups":
		return "fedrepgroups"
	case strings.HasPrefix(name, "entityResolverNameFor"):
		return "fedresolvername"
	case name == "isMulti":
		return "fedismulti"
	case name == "representationField":
		return "fedrepfield"
	}
	if sig.Recv() != nil && strings.HasSuffix(typeStr(sig.Recv().Type()), "executableSchema") && name == "Schema" {
		return "schemagetter"
	}
	if sig.Recv() != nil && strings.HasSuffix(typeStr(sig.Recv().Type()), "executableSchema") && name == "Exec" {
		return "exec"
	}
	if sig.Recv() != nil && strings.HasSuffix(typeStr(sig.Recv().Type()), "executableSchema") && name == "Complexity" {
		return "complexityswitch"
	}
	inModelsGen := strings.HasSuffix(ref.pkg.Fset.Position(fd.Pos()).Filename, "models-gen.go") || strings.HasSuffix(ref.pkg.Fset.Position(fd.Pos()).Filename, "models_gen.go")
	if inModelsGen && sig.Recv() != nil && name == "UnmarshalGQL" && sig.Params().Len() == 1 {
		if pt, ok := sig.Recv().Type().Underlying().(*types.Pointer); ok {
			if b, ok := pt.Elem().Underlying().(*types.Basic); ok && b.Info()&types.IsString != 0 {
				return "enumunmarshal"
			}
		}
	}
	if inModelsGen && sig.Recv() != nil && name == "IsValid" && sig.Params().Len() == 0 {
		return "enumisvalid"
	}
	if !isEC {
		return ""
	}
	switch {
	case strings.HasPrefix(name, "fieldContext_"):
		if bodyCalls(fd, "recover") {
			return "fieldctxargs"
		}
		return "fieldctx"
	case strings.HasPrefix(name, "_") && hasParamOfType(sig, "graphql.CollectedField"):
		if sig.Results().Len() == 1 && strings.HasPrefix(typeStr(sig.Results().At(0).Type()), "func(") {
			return "streamfield"
		}
		return "field"
	case strings.HasPrefix(name, "_") && hasParamOfType(sig, "ast.SelectionSet") && bodyCalls(fd, "CollectFields"):
		if bodyCalls(fd, "Concurrently") || bodyCalls(fd, "Dispatch") {
			return "object"
		}
		return "streamobject"
	case strings.HasPrefix(name, "marshal") && bodyMentions(fd, "sync", "WaitGroup"):
		return "listmarshal"
	case name == "_fieldMiddleware":
		return "fieldmiddleware"
	case strings.HasPrefix(name, "unmarshalInput"):
		return "unmarshalinput"
	case strings.HasPrefix(name, "unmarshal") && bodyCalls(fd, "NewPathWithIndex"):
		return "listunmarshal"
	case strings.HasPrefix(name, "field_") && strings.HasSuffix(name, "_args"):
		return "fieldargs"
	case strings.HasPrefix(name, "field_") && strings.Contains(name, "_args") && hasParamNamed(sig, "rawArgs"):
		return "fieldarg"
	}
	return ""
}

// extraKinds: additional families a function belongs to (their clauses are merged into its contract). The
// parameters come from the function NAME, which gqlgen derives from the schema type (ᚄ marks a NonNull element
// type, ᚕ a list), not from the template text under verification.
func extraKinds(ref *funcRef, kind string) []string {
	name := ref.obj.Name()
	var out []string
	switch kind {
	case "listmarshal":
		if strings.HasSuffix(name, "ᚄ") {
			out = append(out, "listnn")
		}
		if bodyMentions(ref.fd, "semaphore", "NewWeighted") {
			out = append(out, "listwl")
		}
	case "object":
		if name == "_Mutation" {
			out = append(out, "mutationroot")
		}
	case "field":
		// the generated package has a field-directive dispatcher (some FIELD-location directive exists in the schema):
		// then EVERY field function of the package, in whichever generated file it lives, goes through it
		if ref.pkg != nil && ref.pkg.Types != nil {
			if ref.pkg.Types.Scope().Lookup("_fieldMiddleware") != nil {
				out = append(out, "fieldmw")
			} else if ec, ok := ref.pkg.Types.Scope().Lookup("executionContext").(*types.TypeName); ok {
				if m, _, _ := types.LookupFieldOrMethod(types.NewPointer(ec.Type()), true, ref.pkg.Types, "_fieldMiddleware"); m != nil {
					out = append(out, "fieldmw")
				}
			}
		}
	}
	if kind != "introspectgate" && kind != "servicegate" {
		out = append(out, "nogatebypass")
	}
	return out
}

func mergeContracts(base *Contract, extra []*Contract) *Contract {
	c := *base
	c.Invs = map[int][]*SExpr{}
	c.Steps = map[int][]*SExpr{}
	c.At = map[string][]AtClause{}
	for _, src := range append([]*Contract{base}, extra...) {
		if src != base {
			c.Props = append(append([]string{}, c.Props...), src.Props...)
			c.Requires = append(append([]*SExpr{}, c.Requires...), src.Requires...)
			c.Ensures = append(append([]*SExpr{}, c.Ensures...), src.Ensures...)
			c.EnsSrc = append(append([]string{}, c.EnsSrc...), src.EnsSrc...)
			c.OnExit = append(append([]*SExpr{}, c.OnExit...), src.OnExit...)
			c.OnExitSrc = append(append([]string{}, c.OnExitSrc...), src.OnExitSrc...)
			c.OnExitProp = append(append([]string{}, c.OnExitProp...), src.OnExitProp...)
			c.GoEnsures = append(append([]*SExpr{}, c.GoEnsures...), src.GoEnsures...)
			c.EnsProp = append(append([]string{}, c.EnsProp...), src.EnsProp...)
			c.GoEnsProp = append(append([]string{}, c.GoEnsProp...), src.GoEnsProp...)
			c.Ghosts = append(append([]AtClause{}, c.Ghosts...), src.Ghosts...)
			c.Callsites = append(append([]CallsiteClause{}, c.Callsites...), src.Callsites...)
			c.Uses = append(append([]string{}, c.Uses...), src.Uses...)
			c.InLoop = append(append([]*SExpr{}, c.InLoop...), src.InLoop...)
			c.InLoopSrc = append(append([]string{}, c.InLoopSrc...), src.InLoopSrc...)
			c.NoPanic = c.NoPanic || src.NoPanic
			c.NoEscape = c.NoEscape || src.NoEscape
			c.Safe = c.Safe || src.Safe
			c.GoSafe = c.GoSafe || src.GoSafe
		}
		for k, v := range src.Invs {
			c.Invs[k] = append(c.Invs[k], v...)
		}
		for k, v := range src.Steps {
			c.Steps[k] = append(c.Steps[k], v...)
		}
		for k, v := range src.At {
			c.At[k] = append(c.At[k], v...)
		}
		for k := range src.MustAt {
			if c.MustAt == nil || src != base {
				nm := map[string]bool{}
				for kk := range c.MustAt {
					nm[kk] = true
				}
				c.MustAt = nm
			}
			c.MustAt[k] = true
		}
	}
	return &c
}

type famInstance struct {
	key  string
	kind string
	ref  *funcRef
}

func (s *Session) familyUnitsImpl(id string, probes []ProbeResult, re *regexp.Regexp) []*Unit {
	if len(s.cs.Families) == 0 || len(probes) == 0 {
		return nil
	}
	byKind := map[string]*Contract{}
	for _, f := range s.cs.Families {
		byKind[strings.TrimPrefix(f.Key, "family:")] = f
	}
	// probe packages
	isProbe := func(pkgPath string) bool {
		for _, p := range probes {
			for _, pat := range p.Patterns {
				pp := strings.TrimPrefix(strings.TrimSuffix(pat, "/..."), "./")
				if strings.HasSuffix(pkgPath, pp) || strings.Contains(pkgPath, pp+"/") {
					return true
				}
			}
		}
		return false
	}
	var insts []famInstance
	var keys []string
	for k := range s.ix.byKey {
		keys = append(keys, k)
	}
	sort.Strings(keys)
	for _, k := range keys {
		ref := s.ix.byKey[k]
		if !isProbe(ref.pkg.PkgPath) {
			continue
		}
		kind := classify(ref)
		if kind == "" {
			continue
		}
		fam := byKind[kind]
		if fam == nil {
			continue
		}
		// instantiate and register (callers use the callee's contract)
		if _, exists := s.cs.ByKey[k]; !exists {
			var extra []*Contract
			for _, ek := range extraKinds(ref, kind) {
				if ec := byKind[ek]; ec != nil {
					extra = append(extra, ec)
					if s.famCounts == nil {
						s.famCounts = map[string]int{}
					}
					s.famCounts[ek]++
				}
			}
			inst := *mergeContracts(fam, extra)
			inst.Key = k
			inst.Family = nil
			inst.atUsed = map[string]bool{}
			inst.FamKind = kind
			s.cs.ByKey[k] = &inst
		}
		insts = append(insts, famInstance{k, kind, ref})
	}
	if s.famCounts == nil {
		s.famCounts = map[string]int{}
	}
	var units []*Unit
	for _, in := range insts {
		con := s.cs.ByKey[in.key]
		s.famCounts[in.kind]++
		if re != nil && !re.MatchString(in.key) {
			continue
		}
		// the member itself is verified for the properties its family is tagged with; its closure family (below)
		// has tags of its own and is verified for those even when the enclosing function is not
		if con.hasProp(id) {
			u := s.verifyKey(in.key, con)
			// anchors of a family contract need not occur in every member
			var keep []*Obligation
			for _, o := range u.Obls {
				if i := strings.Index(o.Name, ":anchor:"); i >= 0 && !con.MustAt[o.Name[i+len(":anchor:"):]] {
					continue
				}
				keep = append(keep, o)
			}
			u.Obls = keep
			if in.kind == "complexityswitch" {
				u.Obls = append(u.Obls, complexityLabelObligations(u.Short, in.ref)...)
			}
			units = append(units, u)
		}
		// closure members (inner functions the object executor hands to the scheduler)
		sub := byKind[in.kind+"$closure"]
		if sub != nil {
			var extraSub []*Contract
			for _, ek := range extraKinds(in.ref, in.kind) {
				if ec := byKind[ek+"$closure"]; ec != nil {
					extraSub = append(extraSub, ec)
				}
			}
			if len(extraSub) > 0 {
				sub = mergeContracts(sub, extraSub)
			}
		}
		if sub != nil && sub.hasProp(id) {
			n := 0
			ast.Inspect(in.ref.fd.Body, func(x ast.Node) bool {
				if _, ok := x.(*ast.FuncLit); ok {
					n++
				}
				return true
			})
			for k := 1; k <= n; k++ {
				fl := nthFuncLit(in.ref.fd, k)
				if fl == nil || !closureIsMember(in.ref, fl, sub) {
					continue
				}
				ck := fmt.Sprintf("%s$%d", in.key, k)
				inst := *sub
				inst.Key = ck
				inst.Family = nil
				inst.atUsed = map[string]bool{}
				s.cs.ByKey[ck] = &inst
				s.famCounts[in.kind+"$closure"]++
				cu := s.verifyKey(ck, &inst)
				var keep2 []*Obligation
				for _, o := range cu.Obls {
					if i := strings.Index(o.Name, ":anchor:"); i < 0 || inst.MustAt[o.Name[i+len(":anchor:"):]] {
						keep2 = append(keep2, o)
					}
				}
				cu.Obls = keep2
				units = append(units, cu)
			}
		}
	}
	// a family tagged with this property must have members in the probes
	for kind, fam := range byKind {
		if strings.Contains(kind, "$") || !fam.hasProp(id) {
			continue
		}
		if s.famCounts[kind] == 0 && famExpected(kind, probes) {
			units = append(units, &Unit{Key: "family:" + kind, Short: "family." + kind, Con: fam, Obls: []*Obligation{{Name: "family." + kind + ":binding", Goal: "the family has members in the generated probes", Result: SolveResult{Status: "unknown", Model: "no generated function was classified as " + kind}}}})
		}
	}
	return units
}

// famExpected: federation families are only expected in federation probes.
func famExpected(kind string, probes []ProbeResult) bool {
	fed := strings.HasPrefix(kind, "fed")
	for _, p := range probes {
		isFed := strings.Contains(p.Name, "fed")
		if fed == isFed {
			return true
		}
	}
	return false
}

// closureIsMember: a closure belongs to the "<kind>$closure" family if it is the value assigned to the variable
// named by the family's `params` clause (e.g. innerFunc) or, with no name given, every closure containing recover().
func closureIsMember(ref *funcRef, fl *ast.FuncLit, fam *Contract) bool {
	want := ""
	if len(fam.Params) > 0 {
		want = fam.Params[0]
	}
	member := false
	if want == "@returned" {
		// the closures a function hands back: operands of its return statements
		ast.Inspect(ref.fd.Body, func(n ast.Node) bool {
			if rs, ok := n.(*ast.ReturnStmt); ok {
				for _, r := range rs.Results {
					if r == ast.Expr(fl) {
						member = true
					}
				}
			}
			return true
		})
		return member
	}
	ast.Inspect(ref.fd.Body, func(n ast.Node) bool {
		as, ok := n.(*ast.AssignStmt)
		if !ok {
			return true
		}
		for i, r := range as.Rhs {
			if r == ast.Expr(fl) && i < len(as.Lhs) {
				if id, ok := as.Lhs[i].(*ast.Ident); ok && (want == "" || id.Name == want) {
					member = true
				}
			}
		}
		return true
	})
	return member
}

// complexityLabelObligations: the generated Complexity method dispatches on the string typeName+"."+field that the
// complexity walker builds from the SCHEMA names. Every case label must therefore be "T.f" for a type T and field f
// of the generated schema - decided against the generated package itself: the field context function
// fieldContext_T_f exists exactly for the schema's (T, f) pairs - and every such pair of a non-introspection type
// must have its label (otherwise the user's complexity function for it is never consulted). Syntactic obligations,
// one per label / pair; no solver involved.
func complexityLabelObligations(short string, ref *funcRef) []*Obligation {
	pairs := map[string]bool{}
	scope := ref.pkg.Types.Scope()
	addName := func(n string) {
		if strings.HasPrefix(n, "fieldContext_") {
			pairs[strings.TrimPrefix(n, "fieldContext_")] = true
		}
	}
	for _, n := range scope.Names() {
		addName(n)
		if tn, ok := scope.Lookup(n).(*types.TypeName); ok && n == "executionContext" {
			ms := types.NewMethodSet(types.NewPointer(tn.Type()))
			for i := 0; i < ms.Len(); i++ {
				addName(ms.At(i).Obj().Name())
			}
		}
	}
	var out []*Obligation
	labels := map[string]bool{}
	ast.Inspect(ref.fd.Body, func(n ast.Node) bool {
		cc, ok := n.(*ast.CaseClause)
		if !ok {
			return true
		}
		for _, x := range cc.List {
			bl, ok := x.(*ast.BasicLit)
			if !ok || bl.Kind != token.STRING {
				continue
			}
			lab, err := strconv.Unquote(bl.Value)
			if err != nil || !strings.Contains(lab, ".") {
				continue
			}
			labels[lab] = true
			t, f, _ := strings.Cut(lab, ".")
			st := "unsat"
			msg := ""
			if !pairs[t+"_"+f] {
				st = "sat"
				msg = "the label names no (type, field) pair of the generated schema: there is no fieldContext_" + t + "_" + f
			}
			out = append(out, &Obligation{Name: short + ":label:" + lab, Goal: "case label is T.f for a type and field of the schema", Pos: ref.pkg.Fset.Position(bl.Pos()), Result: SolveResult{Status: st, Backend: "syntactic", Model: msg}})
		}
		return true
	})
	if len(labels) == 0 {
		return out // complexity generation is switched off (omit_complexity)
	}
	var names []string
	for p := range pairs {
		names = append(names, p)
	}
	sort.Strings(names)
	for _, p := range names {
		if strings.HasPrefix(p, "__") || strings.Contains(p, "___") {
			continue // introspection types and the reserved __schema/__type fields carry no complexity functions
		}
		t, f, _ := strings.Cut(p, "_")
		// type names may contain underscores: accept any split position that yields a label
		found := false
		for i := 0; i < len(p); i++ {
			if p[i] == '_' && labels[p[:i]+"."+p[i+1:]] {
				found = true
			}
		}
		if found {
			continue
		}
		_ = f
		out = append(out, &Obligation{Name: short + ":label-missing:" + p, Goal: "every (type, field) pair of the schema has its case label", Pos: ref.pkg.Fset.Position(ref.fd.Pos()), Result: SolveResult{Status: "sat", Backend: "syntactic", Model: "no case label for " + t + "…: " + p}})
	}
	return out
}
