package main

import (
	"fmt"
	"regexp"
)

func generateProbesImpl(repo string, probes []ProbeConfig, tier string) (string, []ProbeResult, error) {
	return "", nil, fmt.Errorf("probe generation not built yet")
}

func (s *Session) familyUnitsImpl(id string, probes []ProbeResult, re *regexp.Regexp) []*Unit {
	return nil
}
