package main

import (
	"fmt"
	"go/ast"
	"go/constant"
	"go/token"
	"go/types"
	"sort"
	"strconv"
	"strings"

	"golang.org/x/tools/go/packages"
)

// ---------- values ----------

type Val struct {
	T       string // SMT term (scalar sorts)
	Sort    string // Int Bool Str Iface F64 Slice Struct Tuple
	Go      types.Type
	Elems   []*Val       // Slice: arr,off,len ; Struct: fields ; Tuple: components
	Names   []string     // struct field names
	Lit     *ast.FuncLit // function value known to be this literal (calls are inlined)
	FromMap bool         // obtained by a plain map index m[k] (zero value when the key is absent)
	Pointee *Val         // &x of a basic-typed x: the value x had when its address was taken (spec deref() only)
}

func scalar(t, sort string, g types.Type) *Val { return &Val{T: t, Sort: sort, Go: g} }

func (v *Val) field(name string) *Val {
	for i, n := range v.Names {
		if n == name {
			return v.Elems[i]
		}
	}
	return nil
}

type deferEntry struct {
	call  *ast.CallExpr
	args  []*Val
	guard string // "" = unconditional; otherwise the deferred call only runs on paths where guard holds
}

type State struct {
	defers    []deferEntry
	panicking bool
	recovered bool
	vars      map[types.Object]*Val
	path      string
	heap      map[string]string // heap array name -> current term
	base      []baseAlt         // what unknown heap arrays look like: guarded alternatives of havoc epochs
	sel       []selHavoc        // selective havocs (callee frames) since the last full havoc, oldest first
	counters  map[string]string
	dead      bool
}

func (s *State) clone() *State {
	n := &State{vars: map[types.Object]*Val{}, path: s.path, heap: map[string]string{}, counters: map[string]string{}}
	n.defers = append([]deferEntry{}, s.defers...)
	n.base = append([]baseAlt{}, s.base...)
	n.sel = append([]selHavoc{}, s.sel...)
	n.panicking = s.panicking
	n.recovered = s.recovered
	for k, v := range s.vars {
		n.vars[k] = v
	}
	for k, v := range s.heap {
		n.heap[k] = v
	}
	for k, v := range s.counters {
		n.counters[k] = v
	}
	return n
}

// baseAlt: under cond, a heap array not in State.heap equals the initial symbol of havoc epoch `epoch`.
type baseAlt struct {
	cond  string
	epoch string
}

// selHavoc: a call whose frame is `entries` happened; arrays matching an entry that are not materialised in
// State.heap are unknown since then (symbol of epoch `epoch`).
type selHavoc struct {
	entries []string
	epoch   string
}

// frameMatch reports whether heap array `name` belongs to frame entry `entry`.
func frameMatch(name, entry string) bool {
	switch entry {
	case "elems":
		return strings.HasPrefix(name, "E$")
	case "maps":
		return strings.HasPrefix(name, "MH$") || strings.HasPrefix(name, "MV$")
	case "ptrs":
		return strings.HasPrefix(name, "P$")
	case "*":
		return true
	}
	tn, fn, ok := strings.Cut(entry, ".")
	if !ok {
		return false
	}
	parts := strings.SplitN(name, "$", 3)
	if len(parts) != 3 || parts[0] != "F" || (parts[1] != fn && fn != "*") {
		return false
	}
	typ := parts[2]
	i := strings.Index(typ, tn)
	return i >= 0 && (i == 0 || typ[i-1] == '.') && (i+len(tn) == len(typ) || typ[i+len(tn)] == '.')
}

func frameMatchAny(name string, entries []string) bool {
	for _, en := range entries {
		if frameMatch(name, en) {
			return true
		}
	}
	return false
}

type ExitKind int

const (
	ExitReturn ExitKind = iota
	ExitBreak
	ExitContinue
	ExitPanic
)

type Exit struct {
	Kind  ExitKind
	St    *State
	Vals  []*Val
	Label string
	Pos   token.Pos
}

type Obligation struct {
	Name   string
	Script string
	Goal   string
	Result SolveResult
	Pos    token.Position
	Src    string // contract clause text, when the obligation stems from one
	Replay *ReplayResult
}

// ---------- engine ----------

type Eng struct {
	pkg             *packages.Package
	info            *types.Info
	fset            *token.FileSet
	contracts       *ContractSet
	decls           []string
	facts           []string
	nfresh          int
	obls            []*Obligation
	fn              *ast.FuncDecl
	lit             *ast.FuncLit // non-nil when the unit is a closure of fn
	fnKey           string
	con             *Contract
	results         []types.Object // named or synthetic result objects
	resNames        []string
	oldEnv          map[string]*Val
	tags            map[string]int
	strLits         map[string]string
	loopOrd         int
	gaps            []string
	exits           []Exit
	allTags         *map[string]int
	ghosts          map[string]types.Object
	globals         map[string]*Val
	trustedUsed     map[string]bool
	entrySyms       []ParamSym
	declsAtEntry    []string
	theoriesIn      map[string]bool
	substrDone      bool
	runesDone       bool
	closureOrd      int
	callOrd         map[*ast.CallExpr]int
	declared        map[string]bool
	heapSorts       map[string]string
	lastArgs        []*Val
	retCount        map[string]int
	localRefs       map[string]bool
	inlining        map[*ast.FuncLit]bool
	goOrd           int
	closAssigned    map[types.Object]bool
	inlDepth        int
	funcIndex       *funcIndex
	lockObjs        map[string]types.Object
	loopNest        int // lexical loop nesting while executing (inloop clauses)
	lockSites       int // lock/unlock events and calls of lock-taking methods examined (locks.go)
	specPkgPath     string
	recVar          types.Object
	propID          string
	curPos          token.Pos
	prevState       *State
	stableFields    []string
	oldState        *State // state in which old(...) is evaluated (entry state, or pre-call state for callee ensures)
	inGo            int
	counterHavocked map[string]bool
}

func (e *Eng) fresh(prefix string) string {
	e.nfresh++
	return fmt.Sprintf("%s!%d", prefix, e.nfresh)
}

func smtSym(s string) string {
	// quoted SMT-LIB symbols may not contain | or backslash (cvc5 is strict about it)
	s = strings.NewReplacer("|", "_", "\\", "%").Replace(s)
	return "|" + s + "|"
}

func (e *Eng) declare(name, sort string) string {
	n := smtSym(name)
	e.decls = append(e.decls, fmt.Sprintf("(declare-const %s %s)", n, sort))
	return n
}

func (e *Eng) define(prefix, sort, term string) string {
	// name a term to keep sharing
	if len(term) < 40 {
		return term
	}
	n := smtSym(e.fresh(prefix))
	e.decls = append(e.decls, fmt.Sprintf("(define-fun %s () %s %s)", n, sort, term))
	return n
}

func (e *Eng) assume(st *State, fact string) {
	if fact == "true" {
		return
	}
	e.decls = append(e.decls, fmt.Sprintf("(assert (=> %s %s))", st.path, fact))
}

func (e *Eng) gap(format string, a ...any) {
	e.gaps = append(e.gaps, fmt.Sprintf(format, a...))
}

func (e *Eng) oblige(st *State, kind, anchor, goal string, pos token.Pos) {
	name := fmt.Sprintf("%s:%s:%s", e.fnKey, kind, anchor)
	// disambiguate
	cnt := 0
	for _, o := range e.obls {
		if strings.HasPrefix(o.Name, name) {
			cnt++
		}
	}
	if cnt > 0 {
		name = fmt.Sprintf("%s#%d", name, cnt+1)
	}
	var sb strings.Builder
	for _, d := range e.decls {
		sb.WriteString(d)
		sb.WriteString("\n")
	}
	sb.WriteString(fmt.Sprintf("(assert %s)\n(assert (not %s))\n(check-sat)\n(get-model)\n", st.path, goal))
	body := sb.String()
	e.obls = append(e.obls, &Obligation{Name: name, Script: preambleFor(body) + body, Goal: goal, Pos: e.fset.Position(pos)})
	// subsequent code may assume it (postconditions are checked independently of each other)
	if kind != "ensures" && kind != "noescape" && kind != "onexit" {
		e.assume(st, goal)
	}
}

// ---------- sorts ----------

func intRange(b *types.Basic) (lo, hi string, ok bool) {
	switch b.Kind() {
	case types.Int, types.Int64, types.UntypedInt:
		return "MINI64", "MAXI64", true
	case types.Int32, types.UntypedRune:
		return "(- 2147483648)", "2147483647", true
	case types.Int16:
		return "(- 32768)", "32767", true
	case types.Int8:
		return "(- 128)", "127", true
	case types.Uint, types.Uint64, types.Uintptr:
		return "0", "18446744073709551615", true
	case types.Uint32:
		return "0", "4294967295", true
	case types.Uint16:
		return "0", "65535", true
	case types.Uint8:
		return "0", "255", true
	}
	return "", "", false
}

func sortOf(t types.Type) string {
	switch u := t.Underlying().(type) {
	case *types.Basic:
		if u.Info()&types.IsInteger != 0 {
			return "Int"
		}
		if u.Info()&types.IsBoolean != 0 {
			return "Bool"
		}
		if u.Info()&types.IsString != 0 {
			return "Str"
		}
		if u.Info()&types.IsFloat != 0 {
			return "F64"
		}
		if u.Kind() == types.UntypedNil {
			return "Nil"
		}
	case *types.Interface:
		return "Iface"
	case *types.Pointer, *types.Map, *types.Signature, *types.Chan:
		return "Int"
	case *types.Slice:
		return "Slice"
	case *types.Struct:
		return "Struct"
	case *types.Tuple:
		return "Tuple"
	case *types.Array:
		return "Slice"
	}
	return "Int"
}

func (e *Eng) wrap(t types.Type, term string) string {
	if b, ok := t.Underlying().(*types.Basic); ok {
		switch b.Kind() {
		case types.Int, types.Int64:
			return "(wrap64 " + term + ")"
		case types.Uint, types.Uint64, types.Uintptr:
			return "(wrapu64 " + term + ")"
		case types.Int32:
			return "(wrap32 " + term + ")"
		case types.Uint32:
			return "(mod " + term + " 4294967296)"
		case types.Uint8:
			return "(mod " + term + " 256)"
		}
	}
	return term
}

// freshVal creates an unconstrained symbolic value of Go type t (with type invariants)
func (e *Eng) freshVal(name string, t types.Type) *Val {
	switch sortOf(t) {
	case "Int":
		c := e.declare(e.fresh(name), "Int")
		if b, ok := t.Underlying().(*types.Basic); ok {
			if lo, hi, ok := intRange(b); ok {
				e.decls = append(e.decls, fmt.Sprintf("(assert (<= %s %s %s))", lo, c, hi))
			}
		} else {
			e.decls = append(e.decls, fmt.Sprintf("(assert (>= %s 0))", c)) // refs
		}
		return scalar(c, "Int", t)
	case "Bool":
		return scalar(e.declare(e.fresh(name), "Bool"), "Bool", t)
	case "Str":
		c := e.declare(e.fresh(name), "Str")
		e.decls = append(e.decls, fmt.Sprintf("(assert (and (>= (slen %s) 0) (<= (slen %s) MAXI64)))", c, c))
		return scalar(c, "Str", t)
	case "Iface":
		c := e.declare(e.fresh(name), "Iface")
		e.decls = append(e.decls, fmt.Sprintf("(assert (iwf %s))", c))
		return scalar(c, "Iface", t)
	case "F64":
		return scalar(e.declare(e.fresh(name), "F64"), "F64", t)
	case "Slice":
		arr := e.freshVal(name+".arr", types.Typ[types.Uintptr])
		off := e.declare(e.fresh(name+".off"), "Int")
		ln := e.declare(e.fresh(name+".len"), "Int")
		e.decls = append(e.decls, fmt.Sprintf("(assert (and (>= %s 0) (>= %s 0) (<= (+ %s %s) MAXI64)))", off, ln, off, ln))
		e.decls = append(e.decls, fmt.Sprintf("(assert (=> (= %s 0) (= %s 0)))", arr.T, ln))
		return &Val{Sort: "Slice", Go: t, Elems: []*Val{arr, scalar(off, "Int", nil), scalar(ln, "Int", nil)}}
	case "Struct":
		st := t.Underlying().(*types.Struct)
		v := &Val{Sort: "Struct", Go: t}
		for i := 0; i < st.NumFields(); i++ {
			f := st.Field(i)
			v.Names = append(v.Names, f.Name())
			v.Elems = append(v.Elems, e.freshVal(name+"."+f.Name(), f.Type()))
		}
		return v
	case "Tuple":
		tp := t.(*types.Tuple)
		v := &Val{Sort: "Tuple", Go: t}
		for i := 0; i < tp.Len(); i++ {
			v.Elems = append(v.Elems, e.freshVal(fmt.Sprintf("%s.%d", name, i), tp.At(i).Type()))
		}
		return v
	}
	return scalar(e.declare(e.fresh(name), "Int"), "Int", t)
}

var f64Declared = map[*Eng]bool{}

func (e *Eng) ensureF64() {
	if false {
		f64Declared[e] = true
		e.decls = append(e.decls, "(declare-sort F64 0)", "(declare-fun i2f (Int) F64)", "(declare-fun iflt (Iface) F64)", "(declare-fun mkflt (Int F64) Iface)",
			"(assert (forall ((t Int) (v F64)) (! (=> (> t 0) (and (= (itag (mkflt t v)) t) (= (iflt (mkflt t v)) v))) :pattern ((mkflt t v)))))")
	}
}

func (e *Eng) zeroVal(t types.Type) *Val {
	switch sortOf(t) {
	case "Int":
		return scalar("0", "Int", t)
	case "Bool":
		return scalar("false", "Bool", t)
	case "Str":
		return scalar(e.strLit(""), "Str", t)
	case "Iface":
		return scalar("inil", "Iface", t)
	case "Slice":
		return &Val{Sort: "Slice", Go: t, Elems: []*Val{scalar("0", "Int", nil), scalar("0", "Int", nil), scalar("0", "Int", nil)}}
	case "Struct":
		st := t.Underlying().(*types.Struct)
		v := &Val{Sort: "Struct", Go: t}
		for i := 0; i < st.NumFields(); i++ {
			v.Names = append(v.Names, st.Field(i).Name())
			v.Elems = append(v.Elems, e.zeroVal(st.Field(i).Type()))
		}
		return v
	}
	return e.freshVal("zero", t)
}

func (e *Eng) strLit(s string) string {
	if n, ok := e.strLits[s]; ok {
		return n
	}
	n := smtSym(fmt.Sprintf("str%d!%q", len(e.strLits), s))
	// all literals are declared up-front in the decls of this function lazily
	e.strLits[s] = n
	e.decls = append(e.decls, fmt.Sprintf("(declare-const %s Str)", n), fmt.Sprintf("(assert (= (slen %s) %d))", n, len(s)))
	if len(s) <= 16 {
		for i := 0; i < len(s); i++ {
			e.decls = append(e.decls, fmt.Sprintf("(assert (= (sbyte %s %d) %d))", n, i, s[i]))
		}
	}
	for o, on := range e.strLits {
		if o != s {
			e.decls = append(e.decls, fmt.Sprintf("(assert (distinct %s %s))", n, on))
		}
	}
	return n
}

func kindDigit(t types.Type) int {
	switch sortOf(t) {
	case "Int":
		if _, isBasic := t.Underlying().(*types.Basic); isBasic {
			return 1
		}
		return 3
	case "Str":
		return 2
	case "Bool":
		return 4
	case "Slice":
		return 5
	case "F64":
		return 6
	}
	return 7
}

func (e *Eng) tagOf(t types.Type) int {
	k := types.TypeString(types.Unalias(t), nil)
	k = strings.ReplaceAll(k, "interface{}", "any")
	if n, ok := (*e.allTags)[k]; ok {
		return n
	}
	n := (len(*e.allTags)+1)*10 + kindDigit(t)
	(*e.allTags)[k] = n
	return n
}

// toIface boxes v (of static type v.Go) into an interface value
func (e *Eng) toIface(v *Val, from types.Type) *Val {
	if v.Sort == "Iface" {
		return v
	}
	if v.Sort == "Nil" {
		return scalar("inil", "Iface", nil)
	}
	tag := e.tagOf(from)
	switch v.Sort {
	case "Int":
		if _, isBasic := from.Underlying().(*types.Basic); isBasic {
			return scalar(fmt.Sprintf("(mkint %d %s)", tag, v.T), "Iface", nil)
		}
		return scalar(fmt.Sprintf("(mkref %d %s)", tag, v.T), "Iface", nil)
	case "Str":
		return scalar(fmt.Sprintf("(mkstr %d %s)", tag, v.T), "Iface", nil)
	case "Bool":
		return scalar(fmt.Sprintf("(mkbool %d %s)", tag, v.T), "Iface", nil)
	case "F64":
		e.ensureF64()
		return scalar(fmt.Sprintf("(mkflt %d %s)", tag, v.T), "Iface", nil)
	case "Slice":
		return scalar(fmt.Sprintf("(mkslc %d %s %s %s)", tag, v.Elems[0].T, v.Elems[1].T, v.Elems[2].T), "Iface", nil)
	case "Struct":
		o := e.declare(e.fresh("boxstruct"), "Int")
		e.gap("struct value boxed into interface: payload abstracted (%s)", types.TypeString(from, nil))
		return scalar(fmt.Sprintf("(mkopq %d %s)", tag, o), "Iface", nil)
	}
	o := e.declare(e.fresh("box"), "Int")
	return scalar(fmt.Sprintf("(mkopq %d %s)", tag, o), "Iface", nil)
}

var sliceBox = map[*Eng]bool{}

func (e *Eng) ensureSliceBox() {
	if false {
		sliceBox[e] = true
		e.decls = append(e.decls, "(declare-fun isoff (Iface) Int)", "(declare-fun islen (Iface) Int)",
			"(assert (forall ((i Iface)) (and (>= (isoff i) 0) (>= (islen i) 0))))")
	}
}

// fromIface extracts payload of dynamic type t
func (e *Eng) fromIface(v *Val, t types.Type) *Val {
	switch sortOf(t) {
	case "Int":
		if b, isBasic := t.Underlying().(*types.Basic); isBasic {
			r := scalar("(iint "+v.T+")", "Int", t)
			_ = b
			return r
		}
		return scalar("(iref "+v.T+")", "Int", t)
	case "Str":
		return scalar("(istr "+v.T+")", "Str", t)
	case "Bool":
		return scalar("(ibool "+v.T+")", "Bool", t)
	case "F64":
		e.ensureF64()
		return scalar("(iflt "+v.T+")", "F64", t)
	case "Slice":
		e.ensureSliceBox()
		return &Val{Sort: "Slice", Go: t, Elems: []*Val{scalar("(lref "+v.T+")", "Int", nil), scalar("(isoff "+v.T+")", "Int", nil), scalar("(islen "+v.T+")", "Int", nil)}}
	case "Iface":
		return v
	}
	e.gap("fromIface of %s abstracted", t)
	return e.freshVal("unboxed", t)
}

// rangeFact for payload ints extracted from an interface with tag test
func (e *Eng) ifacePayloadFacts(st *State, v *Val, t types.Type) {
	if b, ok := t.Underlying().(*types.Basic); ok {
		if lo, hi, ok := intRange(b); ok {
			e.assume(st, fmt.Sprintf("(<= %s (iint %s) %s)", lo, v.T, hi))
		}
	}

}

// ---------- heap ----------

func (e *Eng) heapName(kind string, t types.Type) (string, string) {
	// returns name and SMT sort of the heap array
	es := sortOf(t)
	switch es {
	case "Int", "Bool", "Str", "Iface", "F64":
	default:
		es = "Int"
	}
	return kind + "$" + types.TypeString(t, func(p *types.Package) string { return p.Name() }), es
}

func (e *Eng) havocHeap(st *State) {
	var keep map[string]string
	if e.con != nil && len(e.con.Stable) > 0 {
		keep = map[string]string{}
		for _, sf := range e.con.Stable {
			tn, fn, _ := strings.Cut(sf, ".")
			for k, v := range st.heap {
				parts := strings.SplitN(k, "$", 3)
				if len(parts) != 3 || parts[0] != "F" || parts[1] != fn {
					continue
				}
				typ := parts[2]
				if i := strings.Index(typ, tn); i >= 0 && (i == 0 || typ[i-1] == '.') && (i+len(tn) == len(typ) || typ[i+len(tn)] == '.') {
					keep[k] = v
				}
			}
			e.stableFields = append(e.stableFields, sf)
		}
	}
	defer func() {
		for k, v := range keep {
			st.heap[k] = v
		}
	}()
	for k := range st.heap {
		delete(st.heap, k)
	}
	// new epoch: subsequent heapSym must yield fresh symbols
	e.nfresh++
	st.base = []baseAlt{{cond: "true", epoch: strconv.Itoa(e.nfresh)}}
	st.sel = nil
}

// havocFrame forgets exactly the heap arrays a callee with frame `entries` may have written.
func (e *Eng) havocFrame(st *State, entries []string) {
	if len(entries) == 0 {
		return
	}
	for k := range st.heap {
		if frameMatchAny(k, entries) {
			delete(st.heap, k)
		}
	}
	e.nfresh++
	st.sel = append(st.sel, selHavoc{entries: entries, epoch: strconv.Itoa(e.nfresh)})
}

func (e *Eng) declareOnce(d string) {
	if e.declared == nil {
		e.declared = map[string]bool{}
	}
	if !e.declared[d] {
		e.declared[d] = true
		e.decls = append(e.decls, d)
	}
}

func (e *Eng) heapSym(st *State, name, sort string) string {
	if e.heapSorts == nil {
		e.heapSorts = map[string]string{}
	}
	e.heapSorts[name] = sort
	if t, ok := st.heap[name]; ok {
		return t
	}
	if len(st.base) == 0 {
		st.base = []baseAlt{{cond: "true", epoch: "0"}}
	}
	sym := func(ep string) string {
		sy := smtSym("H" + ep + "$" + name)
		e.declareOnce(fmt.Sprintf("(declare-const %s %s)", sy, sort))
		return sy
	}
	// fields declared `stable` are never written by a callee: an array not written locally keeps one symbol forever
	if e.con != nil && len(e.con.Stable) > 0 {
		for _, sf := range e.con.Stable {
			if frameMatch(name, sf) {
				t := sym("S")
				st.heap[name] = t
				return t
			}
		}
	}
	for i := len(st.sel) - 1; i >= 0; i-- {
		if frameMatchAny(name, st.sel[i].entries) {
			t := sym(st.sel[i].epoch)
			st.heap[name] = t
			return t
		}
	}
	term := sym(st.base[len(st.base)-1].epoch)
	for i := len(st.base) - 2; i >= 0; i-- {
		t := sym(st.base[i].epoch)
		if t != term {
			term = fmt.Sprintf("(ite %s %s %s)", st.base[i].cond, t, term)
		}
	}
	if len(st.base) > 1 {
		term = e.define("hb", sort, term)
	}
	st.heap[name] = term
	return term
}

// ---------- merging ----------

func (e *Eng) orPaths(ps []string) string {
	if len(ps) == 1 {
		return ps[0]
	}
	return e.define("p", "Bool", "(or "+strings.Join(ps, " ")+")")
}

func (e *Eng) mergeVals(paths []string, vals []*Val) *Val {
	first := vals[0]
	same := true
	for _, v := range vals[1:] {
		if v != first && !(v.Sort == first.Sort && v.T == first.T && len(v.Elems) == 0 && len(first.Elems) == 0) {
			same = false
		}
	}
	if same {
		return first
	}
	switch first.Sort {
	case "Slice", "Struct", "Tuple":
		r := &Val{Sort: first.Sort, Go: first.Go, Names: first.Names}
		for i := range first.Elems {
			var sub []*Val
			for _, v := range vals {
				if i >= len(v.Elems) {
					return first
				}
				sub = append(sub, v.Elems[i])
			}
			r.Elems = append(r.Elems, e.mergeVals(paths, sub))
		}
		return r
	}
	term := vals[len(vals)-1].T
	for i := len(vals) - 2; i >= 0; i-- {
		if vals[i].T == term {
			continue
		}
		term = fmt.Sprintf("(ite %s %s %s)", paths[i], vals[i].T, term)
	}
	srt := first.Sort
	return scalar(e.define("m", srt, term), srt, first.Go)
}

func (e *Eng) merge(sts []*State) *State {
	var live []*State
	for _, s := range sts {
		if s != nil {
			live = append(live, s)
		}
	}
	if len(live) == 0 {
		return nil
	}
	if len(live) == 1 {
		return live[0]
	}
	var paths []string
	for _, s := range live {
		paths = append(paths, s.path)
	}
	n := &State{vars: map[types.Object]*Val{}, heap: map[string]string{}, counters: map[string]string{}}
	n.defers = e.mergeDefers(live)
	n.panicking = live[0].panicking
	for _, s := range live {
		if s.panicking != n.panicking {
			e.gap("merge of panicking and non-panicking states (kept first)")
		}
		if s.recovered {
			n.recovered = true
		}
	}
	n.path = e.orPaths(paths)
	// vars: intersection of keys
	for k := range live[0].vars {
		var vals []*Val
		ok := true
		for _, s := range live {
			v, has := s.vars[k]
			if !has {
				ok = false
				break
			}
			vals = append(vals, v)
		}
		if ok {
			n.vars[k] = e.mergeVals(paths, vals)
		}
	}
	e.mergeLocks(n, live, paths)
	// heap base: identical bases are kept, otherwise the alternatives are concatenated under the path conditions
	sameBase := true
	for _, s := range live[1:] {
		if len(s.base) != len(live[0].base) {
			sameBase = false
			break
		}
		for i := range s.base {
			if s.base[i] != live[0].base[i] {
				sameBase = false
			}
		}
	}
	if sameBase {
		n.base = append([]baseAlt{}, live[0].base...)
	} else {
		for _, s := range live {
			if len(s.base) == 0 {
				s.base = []baseAlt{{cond: "true", epoch: "0"}}
			}
			for _, a := range s.base {
				c := s.path
				if len(s.base) > 1 {
					c = e.define("bc", "Bool", and(s.path, a.cond))
				}
				n.base = append(n.base, baseAlt{cond: c, epoch: a.epoch})
			}
		}
	}
	// selective havocs: identical histories are kept; otherwise every known array that some state considers
	// selectively havocked is materialised per state (and merged below), and arrays first met later are unknown
	sameSel := true
	for _, s := range live[1:] {
		if len(s.sel) != len(live[0].sel) {
			sameSel = false
			break
		}
		for i := range s.sel {
			if s.sel[i].epoch != live[0].sel[i].epoch {
				sameSel = false
			}
		}
	}
	if sameSel {
		n.sel = append([]selHavoc{}, live[0].sel...)
	} else {
		var union []string
		for _, s := range live {
			for _, sh := range s.sel {
				union = append(union, sh.entries...)
			}
		}
		var known []string
		for name := range e.heapSorts {
			if frameMatchAny(name, union) {
				known = append(known, name)
			}
		}
		sort.Strings(known)
		for _, name := range known {
			for _, s := range live {
				e.heapSym(s, name, e.heapSorts[name])
			}
		}
		e.nfresh++
		n.sel = []selHavoc{{entries: union, epoch: strconv.Itoa(e.nfresh)}}
	}
	keys := map[string]bool{}
	for _, s := range live {
		for k := range s.heap {
			keys[k] = true
		}
	}
	var ks []string
	for k := range keys {
		ks = append(ks, k)
	}
	sort.Strings(ks)
	for _, k := range ks {
		hs := e.heapSorts[k]
		var terms []string
		for _, s := range live {
			terms = append(terms, e.heapSym(s, k, hs))
		}
		allSame := true
		for _, t := range terms {
			if t != terms[0] {
				allSame = false
			}
		}
		if allSame {
			n.heap[k] = terms[0]
			continue
		}
		term := terms[len(terms)-1]
		for i := len(terms) - 2; i >= 0; i-- {
			if terms[i] == term {
				continue
			}
			term = fmt.Sprintf("(ite %s %s %s)", paths[i], terms[i], term)
		}
		n.heap[k] = e.define("h", hs, term)
	}
	goto counters
counters:
	ckeys := map[string]bool{}
	for _, s := range live {
		for k := range s.counters {
			ckeys[k] = true
		}
	}
	for k := range ckeys {
		var vals []*Val
		for _, s := range live {
			c, ok := s.counters[k]
			if !ok {
				c = "0"
			}
			vals = append(vals, scalar(c, "Int", nil))
		}
		n.counters[k] = e.mergeVals(paths, vals).T
	}
	return n
}

// ---------- helpers ----------

func constToVal(e *Eng, tv types.TypeAndValue) *Val {
	v := tv.Value
	switch v.Kind() {
	case constant.Int:
		s := v.ExactString()
		if strings.HasPrefix(s, "-") {
			s = "(- " + s[1:] + ")"
		}
		return scalar(s, "Int", tv.Type)
	case constant.Bool:
		return scalar(strconv.FormatBool(constant.BoolVal(v)), "Bool", tv.Type)
	case constant.String:
		return scalar(e.strLit(constant.StringVal(v)), "Str", tv.Type)
	case constant.Float:
		e.ensureF64()
		if sortOf(tv.Type) == "Int" {
			if i, ok := constant.Int64Val(constant.ToInt(v)); ok {
				return scalar(strconv.FormatInt(i, 10), "Int", tv.Type)
			}
		}
		return e.freshVal("fconst", tv.Type)
	}
	return e.freshVal("const", tv.Type)
}

func not(t string) string {
	if t == "true" {
		return "false"
	}
	if t == "false" {
		return "true"
	}
	return "(not " + t + ")"
}

func and(a, b string) string {
	if a == "true" {
		return b
	}
	if b == "true" {
		return a
	}
	return "(and " + a + " " + b + ")"
}

// mergeDefers joins defer stacks at a control-flow merge: the common prefix is kept, entries registered on only
// some of the merged paths become conditional on those paths' conditions (the paths are mutually exclusive).
func (e *Eng) mergeDefers(live []*State) []deferEntry {
	same := true
	for _, s := range live[1:] {
		if len(s.defers) != len(live[0].defers) {
			same = false
			break
		}
		for i := range s.defers {
			if s.defers[i].call != live[0].defers[i].call || s.defers[i].guard != live[0].defers[i].guard {
				same = false
			}
		}
	}
	if same {
		return live[0].defers
	}
	// common prefix
	n := 0
	for {
		ok := true
		for _, s := range live {
			if n >= len(s.defers) || n >= len(live[0].defers) || s.defers[n].call != live[0].defers[n].call || s.defers[n].guard != live[0].defers[n].guard {
				ok = false
			}
		}
		if !ok {
			break
		}
		n++
	}
	out := append([]deferEntry{}, live[0].defers[:n]...)
	for _, s := range live {
		for _, d := range s.defers[n:] {
			g := s.path
			if d.guard != "" {
				g = e.define("dg", "Bool", and(s.path, d.guard))
			}
			out = append(out, deferEntry{call: d.call, args: d.args, guard: g})
		}
	}
	return out
}
