package main

import (
	"fmt"
	"go/ast"
	"go/token"
	"go/types"
	"strings"
)

func calleeKey(info *types.Info, call *ast.CallExpr) (string, *types.Signature, ast.Expr) {
	fun := ast.Unparen(call.Fun)
	switch f := fun.(type) {
	case *ast.Ident:
		if obj, ok := info.ObjectOf(f).(*types.Func); ok {
			return obj.FullName(), obj.Type().(*types.Signature), nil
		}
	case *ast.SelectorExpr:
		if sel := info.Selections[f]; sel != nil {
			if fn, ok := sel.Obj().(*types.Func); ok {
				return fn.FullName(), fn.Type().(*types.Signature), f.X
			}
			// func-valued field
			if sig, ok := sel.Type().Underlying().(*types.Signature); ok {
				return "field:" + types.TypeString(sel.Recv(), nil) + "." + f.Sel.Name, sig, nil
			}
		}
		if obj, ok := info.ObjectOf(f.Sel).(*types.Func); ok {
			return obj.FullName(), obj.Type().(*types.Signature), nil
		}
	}
	if sig, ok := info.TypeOf(fun).Underlying().(*types.Signature); ok {
		return "dyn:" + types.ExprString(fun), sig, nil
	}
	return "", nil, nil
}

func (e *Eng) anchorClauses(call *ast.CallExpr) ([]AtClause, string) {
	if e.con == nil || len(e.con.At) == 0 {
		return nil, ""
	}
	text := e.srcFull(call)
	var out []AtClause
	if cls, ok := e.con.At[text]; ok {
		e.con.atUsed[text] = true
		out = append(out, cls...)
	}
	if ord, ok := e.callOrd[call]; ok {
		k := fmt.Sprintf("%s#%d", text, ord)
		if cls, ok := e.con.At[k]; ok {
			e.con.atUsed[k] = true
			out = append(out, cls...)
		}
	}
	// prefix anchors: `append(args, InputValue{...` matches every call whose text starts with the part before "..."
	for k, cls := range e.con.At {
		if strings.HasSuffix(k, "...") && strings.HasPrefix(text, strings.TrimSuffix(k, "...")) {
			e.con.atUsed[k] = true
			out = append(out, cls...)
		}
	}
	return out, text
}

// indexCalls numbers the calls of the function by normalised source text, in source order.
func (e *Eng) indexCalls() {
	e.callOrd = map[*ast.CallExpr]int{}
	seen := map[string]int{}
	ast.Inspect(e.fnBody(), func(n ast.Node) bool {
		if c, ok := n.(*ast.CallExpr); ok {
			t := e.srcFull(c)
			seen[t]++
			e.callOrd[c] = seen[t]
		}
		return true
	})
}

func (c *Contract) callsitesFor(exact string) []CallsiteClause {
	if c == nil {
		return nil
	}
	var out []CallsiteClause
	for _, cc := range c.Callsites {
		if cc.Callee == exact {
			out = append(out, cc)
		}
	}
	return out
}

func (e *Eng) callsiteClauses(key string) []CallsiteClause {
	if e.con == nil {
		return nil
	}
	var out []CallsiteClause
	for _, c := range e.con.Callsites {
		if c.Callee == key || strings.HasSuffix(key, "."+c.Callee) || strings.HasSuffix(key, ")."+c.Callee) || strings.HasSuffix(key, ":"+c.Callee) || globName(c.Callee, key) {
			out = append(out, c)
		}
	}
	return out
}

// globName: a callee pattern `Prefix*` matches every function or method whose own name starts with Prefix (generated
// code derives such names from the schema: FindManyItemByIDs, entityResolverNameForItem).
func globName(pat, key string) bool {
	if !strings.HasSuffix(pat, "*") || len(pat) < 2 {
		return false
	}
	name := key
	if i := strings.LastIndexAny(name, ".:"); i >= 0 {
		name = name[i+1:]
	}
	return strings.HasPrefix(name, strings.TrimSuffix(pat, "*"))
}

func (e *Eng) evalCall(st *State, call *ast.CallExpr) []*Val {
	e.lastArgs = nil
	res := e.evalCallInner(st, call)
	if st.dead || e.con == nil || len(e.con.At) == 0 {
		return res
	}
	cls, _ := e.anchorClauses(call)
	myArgs := e.lastArgs
	for _, c := range cls {
		e.lastArgs = myArgs
		if c.Kind == "ghost" {
			env := e.specEnvFromState(st)
			for i, r := range res {
				env[fmt.Sprintf("callres%d", i)] = r
			}
			for i, a := range e.lastArgs {
				env[fmt.Sprintf("arg%d", i)] = a
			}
			g, ok := e.ghosts[c.Name]
			if !ok {
				panic("unknown ghost variable " + c.Name)
			}
			st.vars[g] = e.evalSpec(st, c.Expr, env, e.oldEnv)
		}
	}
	return res
}

func (e *Eng) evalCallInner(st *State, call *ast.CallExpr) []*Val {
	e.curPos = call.Pos()
	fun := ast.Unparen(call.Fun)
	// conversion?
	if tv, ok := e.info.Types[fun]; ok && tv.IsType() {
		return []*Val{e.convert(st, e.eval(st, call.Args[0]), e.info.TypeOf(call.Args[0]), tv.Type)}
	}
	// builtin?
	if id, ok := fun.(*ast.Ident); ok {
		if _, isB := e.info.ObjectOf(id).(*types.Builtin); isB {
			if cls, text := e.anchorClauses(call); len(cls) > 0 {
				var args []*Val
				for _, a := range call.Args {
					args = append(args, e.eval(st, a))
				}
				e.lastArgs = args
				env := e.specEnvFromState(st)
				for i, a := range args {
					env[fmt.Sprintf("arg%d", i)] = a
				}
				env["nargs"] = scalar(fmt.Sprint(len(args)), "Int", nil)
				for _, c := range cls {
					if c.Kind == "requires" {
						g := e.evalSpec(st, c.Expr, env, e.oldEnv)
						e.oblige(st, "at", shortText(text)+" requires "+c.Src, g.T, call.Pos())
					}
				}
			}
			return e.evalBuiltin(st, id.Name, call)
		}
	}
	// immediately-invoked function literal, or a call through a local variable known to hold a literal: inline
	var lit *ast.FuncLit
	if fl, ok := fun.(*ast.FuncLit); ok {
		lit = fl
	} else if id, ok := fun.(*ast.Ident); ok {
		if v, ok := st.vars[e.info.ObjectOf(id)]; ok && v != nil && v.Lit != nil {
			lit = v.Lit
		}
	}
	if lit != nil {
		var args []*Val
		for _, a := range call.Args {
			args = append(args, e.eval(st, a))
		}
		out, vals := e.execClosure(st.clone(), lit, args)
		if out == nil {
			st.dead = true
			return nil
		}
		*st = *out
		return vals
	}
	key, sig, recvExpr := calleeKey(e.info, call)
	// sync/atomic.AddX(&lvalue, delta): modelled as a sequential read-modify-write of the addressed location
	if strings.HasPrefix(key, "sync/atomic.Add") && len(call.Args) == 2 {
		if u, ok := ast.Unparen(call.Args[0]).(*ast.UnaryExpr); ok && u.Op == token.AND {
			old := e.eval(st, u.X)
			delta := e.eval(st, call.Args[1])
			if old.Sort == "Int" && delta.Sort == "Int" {
				if acls, atext := e.anchorClauses(call); len(acls) > 0 {
					env := e.specEnvFromState(st)
					env["arg1"] = delta
					for _, ac := range acls {
						if ac.Kind == "requires" {
							g := e.evalSpec(st, ac.Expr, env, e.oldEnv)
							e.oblige(st, "at", shortText(atext)+" requires "+ac.Src, g.T, call.Pos())
						}
					}
				}
				if ccs := e.callsiteClauses(key); len(ccs) > 0 {
					env := e.specEnvFromState(st)
					env["arg1"] = delta
					e.bindArgTexts(env, call)
					for _, cc := range ccs {
						g := e.evalSpec(st, cc.Expr, env, e.oldEnv)
						e.oblige(st, "callsite", shortKey(key)+" requires "+cc.Src, g.T, call.Pos())
					}
				}
				t := e.info.TypeOf(u.X)
				nv := scalar(e.define("a", "Int", e.wrap(t, fmt.Sprintf("(+ %s %s)", old.T, delta.T))), "Int", t)
				e.assign(st, u.X, nv)
				st.counters[key] = fmt.Sprintf("(+ %s 1)", counterOf(st, key))
				e.lastArgs = []*Val{old, delta}
				return []*Val{nv}
			}
		}
	}
	if strings.HasPrefix(key, "dyn:") && e.ownPanicsChecked() {
		// calling a nil function value panics: own code must know the value is there
		if id, ok := fun.(*ast.Ident); ok {
			if obj, isVar := e.info.ObjectOf(id).(*types.Var); isVar && !obj.IsField() {
				if fv, ok := st.vars[obj]; ok && fv != nil && fv.Sort == "Int" && fv.Lit == nil && fv.FromMap {
					e.oblige(st, "nopanic", "nil-func "+e.src(fun), "(not (= "+fv.T+" 0))", call.Pos())
				}
			}
		}
	}
	e.lockEvent(st, key, recvExpr, call)
	e.lockCallCheck(st, key, recvExpr, call)
	cls, text := e.anchorClauses(call)
	if sig == nil {
		e.gap("call of unknown kind %s", e.src(call))
		e.havocHeap(st)
		return []*Val{e.freshVal("call", e.info.TypeOf(call))}
	}
	var args []*Val
	var recv *Val
	if recvExpr != nil {
		recv = e.eval(st, recvExpr)
		if sig.Recv() != nil {
			if _, isPtr := sig.Recv().Type().Underlying().(*types.Pointer); isPtr && recv.Sort != "Int" {
				// method with pointer receiver called on an addressable value: &x is implicit and never nil.
				// The struct is materialised at a fresh address for the call and read back afterwards.
				sv := recv
				ptrT := sig.Recv().Type()
				recv = e.freshNonNil("autoaddr", ptrT)
				recv.Go = ptrT
				stt, _ := ptrT.Underlying().(*types.Pointer).Elem().Underlying().(*types.Struct)
				id, isIdent := ast.Unparen(recvExpr).(*ast.Ident)
				if stt != nil && sv.Sort == "Struct" && len(sv.Elems) == stt.NumFields() {
					for i := 0; i < stt.NumFields(); i++ {
						e.heapWrite(st, ptrT, stt.Field(i).Name(), recv.T, sv.Elems[i], stt.Field(i).Type())
					}
					if isIdent {
						ref := recv.T
						defer func(obj types.Object) {
							if _, has := st.vars[obj]; has && !st.dead {
								nv := &Val{Sort: "Struct", Go: sv.Go, Names: sv.Names}
								for i := 0; i < stt.NumFields(); i++ {
									nv.Elems = append(nv.Elems, e.heapRead(st, ptrT, stt.Field(i).Name(), ref, stt.Field(i).Type()))
								}
								st.vars[obj] = nv
							}
						}(e.info.ObjectOf(id))
					}
				} else {
					e.gap("implicit address-of for pointer-receiver method call: object identity abstracted (%s)", e.src(recvExpr))
					if isIdent {
						defer func(obj types.Object) {
							if _, has := st.vars[obj]; has && !st.dead {
								st.vars[obj] = e.freshVal("autoaddr."+obj.Name(), obj.Type())
							}
						}(e.info.ObjectOf(id))
					}
				}
			}
		}
	}
	if recv != nil && recv.Sort == "Iface" && e.con != nil && e.con.NoPanic {
		// a method call on a nil interface value panics
		e.oblige(st, "nopanic", "nil-interface-call "+e.src(call.Fun), "(not (= (itag "+recv.T+") 0))", call.Pos())
	}
	for i, a := range call.Args {
		v := e.eval(st, a)
		if i < sig.Params().Len() && !(sig.Variadic() && i >= sig.Params().Len()-1) {
			v = e.coerce(v, sig.Params().At(i).Type())
		}
		args = append(args, v)
	}
	if st.dead {
		return nil
	}
	e.lastArgs = args
	// anchored and call-site preconditions are evaluated after the arguments, before the call
	senv := func() map[string]*Val {
		env := e.specEnvFromState(st)
		for i, a := range args {
			env[fmt.Sprintf("arg%d", i)] = a
		}
		env["nargs"] = scalar(fmt.Sprint(len(args)), "Int", nil)
		e.bindArgTexts(env, call)
		if recv != nil {
			env["recv"] = recv
		}
		return env
	}
	for _, c := range cls {
		switch c.Kind {
		case "requires":
			g := e.evalSpec(st, c.Expr, senv(), e.oldEnv)
			e.oblige(st, "at", shortText(text)+" requires "+c.Src, g.T, call.Pos())
		case "assume":
			g := e.evalSpec(st, c.Expr, senv(), e.oldEnv)
			e.assume(st, g.T)
			e.gap("ASSUME at `%s`: %s", text, c.Src)
		}
	}
	for _, c := range e.callsiteClauses(key) {
		g := e.evalSpec(st, c.Expr, senv(), e.oldEnv)
		e.oblige(st, "callsite", shortKey(key)+" "+c.Src, g.T, call.Pos())
	}
	if strings.HasPrefix(key, "dyn:") {
		// a call of a function value is also addressed by the value's named type (`callsite type=graphql.ResponseHandler: requires …`):
		// the variable's name is incidental
		if nt, ok := types.Unalias(e.info.TypeOf(fun)).(*types.Named); ok && nt.Obj().Pkg() != nil {
			tkey := "type=" + nt.Obj().Pkg().Name() + "." + nt.Obj().Name()
			for _, c := range e.con.callsitesFor(tkey) {
				g := e.evalSpec(st, c.Expr, senv(), e.oldEnv)
				e.oblige(st, "callsite", tkey+" "+c.Src, g.T, call.Pos())
			}
			st.counters[tkey] = fmt.Sprintf("(+ %s 1)", counterOf(st, tkey))
		}
	}
	// counters
	st.counters[key] = fmt.Sprintf("(+ %s 1)", counterOf(st, key))

	con := e.contracts.lookup(key, e.declPkg())
	if con != nil && con.Trusted {
		e.trustedUsed[key] = true
	}
	var results []*Val
	if e.retCount == nil {
		e.retCount = map[string]int{}
	}
	e.retCount[key]++
	// instantiated result types (generic callees): take them from the call expression
	resT := make([]types.Type, sig.Results().Len())
	for i := range resT {
		resT[i] = sig.Results().At(i).Type()
	}
	if ct := e.info.TypeOf(call); ct != nil {
		if tup, ok := ct.(*types.Tuple); ok && tup.Len() == len(resT) {
			for i := range resT {
				resT[i] = tup.At(i).Type()
			}
		} else if len(resT) == 1 {
			resT[0] = ct
		}
	}
	for i := 0; i < sig.Results().Len(); i++ {
		rv := e.freshVal(fmt.Sprintf("ret.%s.%d", shortKey(key), i), resT[i])
		results = append(results, rv)
		nm := fmt.Sprintf("ret.%s.%d", shortKey(key), i)
		if e.retCount[key] > 1 {
			nm += fmt.Sprintf(".n%d", e.retCount[key])
		}
		if len(e.entrySyms) < 200 {
			e.entrySyms = append(e.entrySyms, paramSym(nm, rv))
		}
	}
	siteNoPanic := false
	for _, c := range cls {
		if c.Kind == "assumenopanic" {
			siteNoPanic = true
			e.gap("ASSUME no panic at `%s`: %s", text, c.Src)
		}
	}
	if (con == nil || !(con.NoPanic || con.NoEscape || con.AssumeNoPanic)) && !(e.con != nil && e.con.NoPanic) && !siteNoPanic {
		// fork an exceptional path
		ps := st.clone()
		ps.panicking = true
		e.havocHeap(ps)
		e.havocAddrTaken(ps, call)
		// the exit is labelled with what raised the panic (a function value by its named type: the variable's name is incidental)
		lbl := shortKey(key)
		if strings.HasPrefix(key, "dyn:") {
			if nt, ok := types.Unalias(e.info.TypeOf(fun)).(*types.Named); ok && nt.Obj().Pkg() != nil {
				lbl = "type=" + nt.Obj().Pkg().Name() + "." + nt.Obj().Name()
			}
		}
		e.exits = append(e.exits, Exit{Kind: ExitPanic, St: ps, Pos: call.Pos(), Label: lbl})
	}
	// address-taken locals passed as &x may be overwritten by the callee
	defer e.havocAddrTaken(st, call)
	if e.con != nil && e.con.Safe && strings.Contains(key, repoModule) && !strings.HasPrefix(key, "dyn:") && !strings.HasPrefix(key, "field:") && !e.userResolverMethod(call) {
		// `safe` is about gqlgen's OWN code: a callee that is gqlgen code must itself be under a contract that says
		// something about its panics (safe / nopanic / noescape), or be trusted explicitly (a listed assumption) -
		// otherwise moving code into a new helper would move it out of the claim
		if con == nil {
			// a helper of the same package that carries no contract of its own is verified as part of its caller: its
			// body is executed in place (so every clause of the caller applies to what it does); only helpers that
			// cannot be inlined (other package, no body, recursion, too large) fail the obligation
			if vals, ok := e.inlineOwnHelper(st, key, recv, args, call); ok {
				return vals
			}
			e.oblige(st, "safe", "own-callee-without-contract "+shortKey(key), "false", call.Pos())
		} else if !con.Trusted && !(con.Safe || con.NoPanic || con.NoEscape || con.AssumeNoPanic) {
			e.oblige(st, "safe", "own-callee-contract-silent-on-panics "+shortKey(key), "false", call.Pos())
		}
	}
	if con == nil {
		// unknown callee: havoc heap, may panic
		if e.con != nil && e.con.NoPanic {
			e.oblige(st, "nopanic", "call-unknown "+shortKey(key), "false", call.Pos())
		}
		e.gap("call to %s without contract: results and heap havocked", key)
		if e.con != nil && e.con.Pure {
			e.oblige(st, "pure", "callee-unknown "+shortKey(key), "false", call.Pos())
		}
		if e.con != nil && e.con.HasFrame {
			e.oblige(st, "modifies", "callee-unknown "+shortKey(key), "false", call.Pos())
		}
		e.havocHeap(st)
		e.havocClosureAssigned(st)
		return results
	}
	if e.con != nil && e.con.NoPanic && !(con.NoPanic || con.AssumeNoPanic) {
		e.oblige(st, "nopanic", "callee-may-panic "+shortKey(key), "false", call.Pos())
	}
	if e.con != nil && e.con.Pure && !con.Pure {
		e.oblige(st, "pure", "callee-not-pure "+shortKey(key), "false", call.Pos())
	}
	if e.con != nil && e.con.HasFrame && !con.Pure {
		ok := con.HasFrame
		if ok {
			for _, m := range con.Modifies {
				found := false
				for _, mine := range e.con.Modifies {
					if mine == m {
						found = true
					}
				}
				if !found {
					ok = false
				}
			}
		}
		if !ok {
			e.oblige(st, "modifies", "callee-frame-not-included "+shortKey(key), "false", call.Pos())
		}
	}
	env := map[string]*Val{}
	for i := 0; i < sig.Params().Len() && i < len(args); i++ {
		name := sig.Params().At(i).Name()
		if i < len(con.Params) && con.Params[i] != "" {
			name = con.Params[i]
		}
		env[name] = args[i]
	}
	if recv != nil && sig.Recv() != nil {
		if n := sig.Recv().Name(); n != "" {
			env[n] = recv
		}
		env["recv"] = recv
	}
	savedSpecPkg := e.specPkgPath
	e.specPkgPath = con.Pkg
	defer func() { e.specPkgPath = savedSpecPkg }()
	for _, r := range con.Requires {
		g := e.evalSpec(st, r, env, nil)
		e.oblige(st, "pre", shortKey(key)+" requires "+r.String(), g.T, call.Pos())
	}
	oldEnv := map[string]*Val{}
	for k, v := range env {
		oldEnv[k] = v
	}
	// higher-order callees: `runs f with ...` - inline the function literal passed for parameter f
	for _, rc := range con.Runs {
		for i := 0; i < sig.Params().Len() && i < len(call.Args); i++ {
			if sig.Params().At(i).Name() != rc.Param {
				continue
			}
			var lit *ast.FuncLit
			if fl, ok := ast.Unparen(call.Args[i]).(*ast.FuncLit); ok {
				lit = fl
			} else if args[i] != nil && args[i].Lit != nil {
				lit = args[i].Lit
			}
			if lit == nil {
				e.gap("runs %s: argument is not a function literal, its effects are havocked", rc.Param)
				e.havocHeap(st)
				continue
			}
			saved := map[types.Object]*Val{}
			for _, g := range rc.Ghosts {
				if obj, ok := e.ghosts[g.Name]; ok {
					saved[obj] = st.vars[obj]
					st.vars[obj] = e.evalSpec(st, g.Expr, e.specEnvFromState(st), e.oldEnv)
				}
			}
			out, _ := e.execClosure(st.clone(), lit, nil)
			if out == nil {
				st.dead = true
				return results
			}
			*st = *out
			for obj, v := range saved {
				st.vars[obj] = v
			}
		}
	}
	preState := st
	if !con.Pure {
		preState = st.clone()
		if con.HasFrame {
			e.havocFrame(st, con.Modifies)
		} else {
			e.havocHeap(st)
		}
		e.havocClosureAssigned(st)
	}
	savedOld := e.oldState
	e.oldState = preState
	defer func() { e.oldState = savedOld }()
	for i := 0; i < sig.Results().Len(); i++ {
		name := sig.Results().At(i).Name()
		if i < len(con.Results) && con.Results[i] != "" {
			name = con.Results[i]
		}
		if name != "" {
			env[name] = results[i]
		}
		env[fmt.Sprintf("res%d", i)] = results[i]
	}
	if len(con.Uses) > 0 {
		e.includeTheories(con.Uses)
	}
	ghostNames := map[string]bool{"panicked": true}
	for _, g := range con.Ghosts {
		ghostNames[g.Name] = true
	}
	for _, q := range con.Ensures {
		if specMentions(q, ghostNames) {
			continue // clauses over the callee's ghost state are not visible to callers
		}
		g := e.evalSpec(st, q, env, oldEnv)
		e.assume(st, g.T)
	}
	return results
}

// callIsPure: conversions, pure builtins and callees whose contract says `pure` do not write the heap.
func (e *Eng) callIsPure(call *ast.CallExpr) bool {
	fun := ast.Unparen(call.Fun)
	if tv, ok := e.info.Types[fun]; ok && tv.IsType() {
		return true
	}
	if id, ok := fun.(*ast.Ident); ok {
		if _, isB := e.info.ObjectOf(id).(*types.Builtin); isB {
			switch id.Name {
			case "len", "cap", "min", "max", "recover", "panic", "new", "make":
				return true
			}
			return false
		}
	}
	key, sig, _ := calleeKey(e.info, call)
	if sig == nil {
		return false
	}
	con := e.contracts.lookup(key, e.declPkg())
	return con != nil && con.Pure
}

// closureAssignedVars: variables of the enclosing function that some function literal assigns. A literal that is
// handed to a callee (or stored) may run during any later call, so these variables are unknown after every call
// to a function that is not known to be pure (literals run by the engine itself - deferred closures, immediately
// invoked ones, `runs` arguments - are executed explicitly and need no havoc).
func (e *Eng) closureAssignedVars() map[types.Object]bool {
	if e.closAssigned != nil {
		return e.closAssigned
	}
	e.closAssigned = map[types.Object]bool{}
	body := ast.Node(e.fnBody())
	ast.Inspect(body, func(n ast.Node) bool {
		switch x := n.(type) {
		case *ast.DeferStmt:
			return false // deferred literals run at exit only (modelled explicitly)
		case *ast.GoStmt:
			return false // handled by execGo
		case *ast.CallExpr:
			if _, ok := ast.Unparen(x.Fun).(*ast.FuncLit); ok {
				// immediately invoked: inlined; still inspect arguments
				for _, a := range x.Args {
					ast.Inspect(a, func(ast.Node) bool { return true })
				}
				return false
			}
		case *ast.FuncLit:
			vars, _ := e.assignedVars(e.info, x.Body)
			for o := range vars {
				if o != nil && (o.Pos() < x.Pos() || o.Pos() >= x.End()) {
					e.closAssigned[o] = true
				}
			}
			return false
		}
		return true
	})
	return e.closAssigned
}

func (e *Eng) havocClosureAssigned(st *State) {
	for o := range e.closureAssignedVars() {
		if _, ok := st.vars[o]; ok {
			if _, isGhost := e.ghostObjs()[o]; isGhost {
				continue
			}
			st.vars[o] = e.freshVal("esc."+o.Name(), o.Type())
		}
	}
}

func (e *Eng) ghostObjs() map[types.Object]bool {
	m := map[types.Object]bool{}
	for _, g := range e.ghosts {
		m[g] = true
	}
	return m
}

func (e *Eng) havocAddrTaken(st *State, call *ast.CallExpr) {
	for _, a := range call.Args {
		if u, ok := a.(*ast.UnaryExpr); ok && u.Op == token.AND {
			if id, ok := u.X.(*ast.Ident); ok {
				obj := e.info.ObjectOf(id)
				if _, has := st.vars[obj]; has {
					st.vars[obj] = e.freshVal("addrtaken."+id.Name, obj.Type())
				}
			}
		}
	}
}

func shortKey(k string) string {
	if i := strings.LastIndex(k, "/"); i >= 0 {
		k = k[i+1:]
	}
	k = strings.TrimPrefix(k, "(")
	k = strings.TrimPrefix(k, "*")
	k = strings.Replace(k, ").", ".", 1)
	return k
}

// specMentions reports whether the spec expression mentions one of the names as an identifier, or calls().
func specMentions(x *SExpr, names map[string]bool) bool {
	if x == nil {
		return false
	}
	if x.Kind == SIdent && names[x.Name] {
		return true
	}
	if x.Kind == SCall && x.Args[0].Kind == SIdent && (x.Args[0].Name == "calls") {
		return true
	}
	for _, a := range x.Args {
		if specMentions(a, names) {
			return true
		}
	}
	return false
}

func counterOf(st *State, key string) string {
	if c, ok := st.counters[key]; ok {
		return c
	}
	return "0"
}

func (e *Eng) convert(st *State, v *Val, from, to types.Type) *Val {
	fs, ts := sortOf(from), sortOf(to)
	switch {
	case fs == "Int" && ts == "Int":
		_, fb := from.Underlying().(*types.Basic)
		_, tb := to.Underlying().(*types.Basic)
		if fb && tb {
			return scalar(e.define("cv", "Int", e.wrap(to, v.T)), "Int", to)
		}
		return scalar(v.T, "Int", to)
	case fs == ts && (fs == "Str" || fs == "Bool" || fs == "Iface"):
		return scalar(v.T, fs, to)
	case fs == "Int" && ts == "F64":
		e.ensureF64()
		return scalar("(i2f "+v.T+")", "F64", to)
	case ts == "Iface":
		return e.coerce(v, to)
	case fs == "Slice" && ts == "Slice":
		return &Val{Sort: "Slice", Go: to, Elems: v.Elems}
	case fs == "Struct" && ts == "Struct":
		return &Val{Sort: "Struct", Go: to, Elems: v.Elems, Names: v.Names}
	}
	e.gap("conversion %s -> %s abstracted", from, to)
	return e.freshVal("conv", to)
}

func (e *Eng) evalBuiltin(st *State, name string, call *ast.CallExpr) []*Val {
	switch name {
	case "len":
		v := e.eval(st, call.Args[0])
		switch v.Sort {
		case "Str":
			return []*Val{scalar("(slen "+v.T+")", "Int", types.Typ[types.Int])}
		case "Slice":
			return []*Val{scalar(v.Elems[2].T, "Int", types.Typ[types.Int])}
		}
		e.gap("len of %s abstracted", v.Sort)
		r := e.freshVal("len", types.Typ[types.Int])
		e.decls = append(e.decls, fmt.Sprintf("(assert (>= %s 0))", r.T))
		return []*Val{r}
	case "panic":
		for _, a := range call.Args {
			e.eval(st, a)
		}
		if e.con != nil && e.con.NoPanic {
			e.oblige(st, "nopanic", "explicit-panic "+e.src(call), "false", call.Pos())
		}
		ps := st.clone()
		ps.panicking = true
		e.exits = append(e.exits, Exit{Kind: ExitPanic, St: ps, Pos: call.Pos()})
		st.dead = true
		return nil
	case "append":
		sl := e.eval(st, call.Args[0])
		t := e.info.TypeOf(call).Underlying().(*types.Slice)
		if call.Ellipsis.IsValid() && len(call.Args) == 2 {
			// append(a, b...): length is exact, the backing array is either the old one (written in place) or a
			// fresh one; element contents of the result array are abstracted, all other arrays are unchanged
			other := e.eval(st, call.Args[1])
			olen := "0"
			switch other.Sort {
			case "Slice":
				olen = other.Elems[2].T
			case "Str":
				olen = "(slen " + other.T + ")"
			}
			same := e.declare(e.fresh("app.same"), "Bool")
			fresh := e.freshNonNil("app.arr", types.Typ[types.Uintptr])
			arr := e.define("arr", "Int", fmt.Sprintf("(ite (and %s (not (= %s 0))) %s %s)", same, sl.Elems[0].T, sl.Elems[0].T, fresh.T))
			off := e.define("off", "Int", fmt.Sprintf("(ite (and %s (not (= %s 0))) %s 0)", same, sl.Elems[0].T, sl.Elems[1].T))
			e.pureWrite(st, arr, "slice element")
			name, srt := e.elemsHeap(st, t.Elem())
			cur := e.heapSym(st, name, srt)
			nh := e.declare(e.fresh("H.app."+name), srt)
			e.assume(st, fmt.Sprintf("(forall ((r Int)) (=> (not (= r %s)) (= (select %s r) (select %s r))))", arr, nh, cur))
			st.heap[name] = nh
			// a zero-length append of nothing keeps nil
			nl := fmt.Sprintf("(+ %s %s)", sl.Elems[2].T, olen)
			res := &Val{Sort: "Slice", Go: e.info.TypeOf(call), Elems: []*Val{scalar(arr, "Int", nil), scalar(off, "Int", nil), scalar(nl, "Int", nil)}}
			e.gap("append(a, b...): element contents abstracted")
			return []*Val{res}
		}
		if call.Ellipsis.IsValid() || len(call.Args) != 2 {
			e.gap("append with multiple args: contents abstracted")
			r := e.freshVal("app", e.info.TypeOf(call))
			return []*Val{r}
		}
		v := e.coerce(e.eval(st, call.Args[1]), t.Elem())
		// result: same array or fresh (nondeterministic)
		same := e.declare(e.fresh("app.same"), "Bool")
		fresh := e.freshNonNil("app.arr", types.Typ[types.Uintptr])
		name, srt := e.elemsHeap(st, t.Elem())
		cur := e.heapSym(st, name, srt)
		arr := fmt.Sprintf("(ite (and %s (not (= %s 0))) %s %s)", same, sl.Elems[0].T, sl.Elems[0].T, fresh.T)
		arr = e.define("arr", "Int", arr)
		// an in-place append writes into the old backing array
		e.pureWrite(st, arr, "slice element")
		off := e.define("off", "Int", fmt.Sprintf("(ite (and %s (not (= %s 0))) %s 0)", same, sl.Elems[0].T, sl.Elems[1].T))
		nl := fmt.Sprintf("(+ %s 1)", sl.Elems[2].T)
		res := &Val{Sort: "Slice", Go: e.info.TypeOf(call), Elems: []*Val{scalar(arr, "Int", nil), scalar(off, "Int", nil), scalar(nl, "Int", nil)}}
		if v.Sort == elemSort(t.Elem()) {
			// contents: new heap where res array holds old contents + v
			nh := e.declare(e.fresh("H.app."+name), srt)
			es := elemSort(t.Elem())
			_ = es
			e.assume(st, fmt.Sprintf("(forall ((k Int)) (=> (and (<= 0 k) (< k %s)) (= (select (select %s %s) (+ %s k)) (select (select %s %s) (+ %s k)))))",
				sl.Elems[2].T, nh, arr, off, cur, sl.Elems[0].T, sl.Elems[1].T))
			e.assume(st, fmt.Sprintf("(= (select (select %s %s) (+ %s %s)) %s)", nh, arr, off, sl.Elems[2].T, v.T))
			// other arrays unchanged
			e.assume(st, fmt.Sprintf("(forall ((r Int)) (=> (not (= r %s)) (= (select %s r) (select %s r))))", arr, nh, cur))
			// if same array: positions below old len unchanged already covered
			st.heap[name] = nh
		} else {
			e.gap("append of composite element abstracted")
		}
		return []*Val{res}
	case "make":
		t := e.info.TypeOf(call)
		switch u := t.Underlying().(type) {
		case *types.Map:
			ref := e.freshNonNil("make.map", t)
			hn, hs, _, _ := e.mapHeaps(st, u)
			h := e.heapSym(st, hn, hs)
			st.heap[hn] = e.define("h", hs, fmt.Sprintf("(store %s %s ((as const (Array %s Bool)) false))", h, ref.T, elemSort(u.Key())))
			return []*Val{ref}
		case *types.Slice:
			ln := e.eval(st, call.Args[1])
			arr := e.freshNonNil("make.arr", types.Typ[types.Uintptr])
			if e.ownPanicsChecked() {
				e.oblige(st, "nopanic", "make-len "+e.src(call), "(>= "+ln.T+" 0)", call.Pos())
			}
			e.gap("make([]T): zero contents not asserted")
			return []*Val{{Sort: "Slice", Go: t, Elems: []*Val{arr, scalar("0", "Int", nil), scalar(ln.T, "Int", nil)}}}
		}
		return []*Val{e.freshNonNil("make", t)}
	case "copy":
		dst := e.eval(st, call.Args[0])
		src := e.eval(st, call.Args[1])
		slen := "0"
		switch src.Sort {
		case "Slice":
			slen = src.Elems[2].T
		case "Str":
			slen = "(slen " + src.T + ")"
		}
		if dst.Sort != "Slice" {
			break
		}
		n := e.define("n", "Int", fmt.Sprintf("(imin %s %s)", dst.Elems[2].T, slen))
		// the destination's elements are overwritten: its array content becomes unknown, other arrays are unchanged
		if dt, ok := e.info.TypeOf(call.Args[0]).Underlying().(*types.Slice); ok {
			e.pureWrite(st, dst.Elems[0].T, "slice element")
			name, srt := e.elemsHeap(st, dt.Elem())
			cur := e.heapSym(st, name, srt)
			nh := e.declare(e.fresh("H.copy."+name), srt)
			e.assume(st, fmt.Sprintf("(forall ((r Int)) (=> (not (= r %s)) (= (select %s r) (select %s r))))", dst.Elems[0].T, nh, cur))
			st.heap[name] = nh
		}
		return []*Val{scalar(n, "Int", types.Typ[types.Int])}
	case "delete":
		e.gap("delete abstracted")
		return nil
	case "recover":
		if st.panicking {
			st.panicking = false
			st.recovered = true
			st.vars[e.recObj()] = scalar("true", "Bool", types.Typ[types.Bool])
			r := e.freshVal("recovered", types.NewInterfaceType(nil, nil))
			e.decls = append(e.decls, fmt.Sprintf("(assert (not (= (itag %s) 0)))", r.T))
			return []*Val{r}
		}
		return []*Val{scalar("inil", "Iface", nil)}
	case "min", "max":
		a := e.eval(st, call.Args[0])
		b := e.eval(st, call.Args[1])
		fn := "imin"
		if name == "max" {
			fn = "imax"
		}
		return []*Val{scalar(fmt.Sprintf("(%s %s %s)", fn, a.T, b.T), "Int", e.info.TypeOf(call))}
	}
	if name == "close" && len(call.Args) == 1 {
		// closing a channel: a ghost event like a send (anchor `chanclose <channel text>`, counter chanclose)
		e.eval(st, call.Args[0])
		e.chanEvent(st, "chanclose", call.Args[0], call.Pos())
		return nil
	}
	e.gap("builtin %s abstracted", name)
	if t := e.info.TypeOf(call); t != nil {
		if _, isTuple := t.(*types.Tuple); !isTuple {
			return []*Val{e.freshVal(name, t)}
		}
	}
	return nil
}

// shortText abbreviates long call texts in obligation names (stable: a prefix of the normalised source text).
func shortText(t string) string {
	if len(t) > 70 {
		return t[:70] + "..."
	}
	return t
}

// recObj is the ghost variable "a panic was recovered on this path" (merged symbolically like any variable).
func (e *Eng) recObj() types.Object {
	if e.recVar == nil {
		e.recVar = types.NewVar(token.NoPos, nil, "panicked", types.Typ[types.Bool])
	}
	return e.recVar
}

// chanEvent records a channel operation that has no call syntax (receive, close) as a ghost event: its counter is
// incremented and the clauses anchored at `<kind> <channel text>` are evaluated (requires) or applied (ghost).
func (e *Eng) chanEvent(st *State, kind string, ch ast.Expr, pos token.Pos) {
	key := kind + " " + e.srcFull(ch)
	if e.con != nil {
		if cls, ok := e.con.At[key]; ok {
			e.con.atUsed[key] = true
			for _, cl := range cls {
				switch cl.Kind {
				case "requires":
					g := e.evalSpec(st, cl.Expr, e.specEnvFromState(st), e.oldEnv)
					e.oblige(st, "at", key+" requires "+cl.Src, g.T, pos)
				case "ghost":
					st.vars[e.ghosts[cl.Name]] = e.evalSpec(st, cl.Expr, e.specEnvFromState(st), e.oldEnv)
				}
			}
		}
	}
	st.counters[kind] = fmt.Sprintf("(+ %s 1)", counterOf(st, kind))
}

// declPkg: the package whose contract file declares the contract being verified (for family instances the package
// of the family declaration, e.g. codegen for the generated test servers).
func (e *Eng) declPkg() string {
	if e.con != nil && e.con.Pkg != "" {
		return e.con.Pkg
	}
	if e.pkg != nil {
		return e.pkg.PkgPath
	}
	return ""
}

// bindArgTexts binds argtextN to the source text of the N-th argument expression (a string constant): lets a clause
// pin down WHICH variable an argument names (e.g. the closure's own parameter rather than a captured variable).
func (e *Eng) bindArgTexts(env map[string]*Val, call *ast.CallExpr) {
	for i, a := range call.Args {
		env[fmt.Sprintf("argtext%d", i)] = scalar(e.strLit(e.srcFull(a)), "Str", types.Typ[types.String])
		// argparamN: the argument is (the address of) a path p.f.g rooted in a PARAMETER of the function or literal
		// under verification - a rename-proof way of saying "its own field set, not a captured one"
		// argpathN: the selector path after the root (".Invalids")
		x := ast.Unparen(a)
		if u, ok := x.(*ast.UnaryExpr); ok && u.Op == token.AND {
			x = ast.Unparen(u.X)
		}
		path := ""
		for {
			if sel, ok := x.(*ast.SelectorExpr); ok {
				path = "." + sel.Sel.Name + path
				x = ast.Unparen(sel.X)
				continue
			}
			break
		}
		isParam := false
		if id, ok := x.(*ast.Ident); ok {
			if obj := e.info.ObjectOf(id); obj != nil {
				ft := e.fnType()
				if ft != nil && ft.Params != nil {
					for _, f := range ft.Params.List {
						for _, n := range f.Names {
							if e.info.ObjectOf(n) == obj {
								isParam = true
							}
						}
					}
				}
			}
		}
		// arglocalN: the root variable is declared inside the function or literal under verification (parameters
		// included): it lives for one call only
		isLocal := false
		if id, ok := x.(*ast.Ident); ok {
			if obj := e.info.ObjectOf(id); obj != nil {
				lo, hi := e.fnBody().Pos(), e.fnBody().End()
				if e.lit != nil {
					lo = e.lit.Pos()
				} else if e.fn != nil {
					lo = e.fn.Pos()
				}
				isLocal = obj.Pos() >= lo && obj.Pos() < hi
			}
		}
		env[fmt.Sprintf("arglocal%d", i)] = scalar(fmt.Sprint(isLocal), "Bool", nil)
		// argownaddrN: the argument is literally &v.path for a non-pointer variable v declared inside the unit: the
		// address of storage that belongs to this call
		own := false
		if u, ok := ast.Unparen(a).(*ast.UnaryExpr); ok && u.Op == token.AND && isLocal {
			if id, ok := x.(*ast.Ident); ok {
				if obj := e.info.ObjectOf(id); obj != nil {
					if _, isPtr := obj.Type().Underlying().(*types.Pointer); !isPtr {
						own = true
					}
				}
			}
		}
		env[fmt.Sprintf("argownaddr%d", i)] = scalar(fmt.Sprint(own), "Bool", nil)
		env[fmt.Sprintf("argparam%d", i)] = scalar(fmt.Sprint(isParam), "Bool", nil)
		env[fmt.Sprintf("argpath%d", i)] = scalar(e.strLit(path), "Str", types.Typ[types.String])
	}
}

// inlineOwnHelper executes the body of a contract-less function of the package under verification in the caller's
// state (parameters and receiver bound to the argument values, own defers run, results returned).
func (e *Eng) inlineOwnHelper(st *State, key string, recv *Val, args []*Val, call *ast.CallExpr) ([]*Val, bool) {
	ref := e.funcIndex.byKey[key]
	if ref == nil || ref.fd == nil || ref.fd.Body == nil || ref.pkg != e.pkg {
		return nil, false
	}
	if ref.fd.Type.TypeParams != nil || ref.fd == e.fn {
		return nil, false
	}
	n := 0
	ast.Inspect(ref.fd.Body, func(x ast.Node) bool {
		if _, ok := x.(ast.Stmt); ok {
			n++
		}
		return true
	})
	if n > 80 {
		return nil, false
	}
	if e.inlDepth >= 3 {
		return nil, false
	}
	for _, f := range ref.fd.Type.Params.List {
		if _, variadic := f.Type.(*ast.Ellipsis); variadic {
			return nil, false
		}
	}
	work := st.clone()
	if ref.fd.Recv != nil && len(ref.fd.Recv.List) == 1 && len(ref.fd.Recv.List[0].Names) == 1 && recv != nil {
		if obj := e.info.Defs[ref.fd.Recv.List[0].Names[0]]; obj != nil {
			work.vars[obj] = e.coerce(recv, obj.Type())
		}
	}
	e.gap("call to %s without contract: body inlined into the caller", key)
	e.inlDepth++
	fl := &ast.FuncLit{Type: ref.fd.Type, Body: ref.fd.Body}
	out, vals := e.execClosure(work, fl, args)
	e.inlDepth--
	if out == nil {
		st.dead = true
		return nil, true
	}
	*st = *out
	return vals, true
}

// userResolverMethod: the call is a method of one of the resolver interfaces a generated package declares for the
// user to implement (ResolverRoot, QueryResolver, EntityResolver, ...): user code, not gqlgen's own - it may panic
// (the exceptional path is explored) and needs no contract.
func (e *Eng) userResolverMethod(call *ast.CallExpr) bool {
	sel, ok := ast.Unparen(call.Fun).(*ast.SelectorExpr)
	if !ok {
		return false
	}
	// explicit_requires mode: ec.Populate<Entity>Requires(ctx, entity, rep) is written by the user in the resolver
	// files of the generated package (the generator only emits a stub that panics "not implemented")
	if n := sel.Sel.Name; strings.HasPrefix(n, "Populate") && strings.HasSuffix(n, "Requires") {
		if _, generated := e.funcIndex.byKey[e.pkg.PkgPath+".NewExecutableSchema"]; generated {
			return true
		}
	}
	s, ok := e.info.Selections[sel]
	if !ok {
		return false
	}
	nt, ok := types.Unalias(s.Recv()).(*types.Named)
	if !ok {
		return false
	}
	if _, isIface := nt.Underlying().(*types.Interface); !isIface || nt.Obj().Pkg() == nil || nt.Obj().Pkg() != e.pkg.Types {
		return false
	}
	if _, generated := e.funcIndex.byKey[e.pkg.PkgPath+".NewExecutableSchema"]; !generated {
		return false
	}
	n := nt.Obj().Name()
	return n == "ResolverRoot" || strings.HasSuffix(n, "Resolver")
}
