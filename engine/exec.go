package main

import (
	"fmt"
	"go/ast"
	"go/printer"
	"go/token"
	"go/types"
	"strings"
)

func (e *Eng) src(n ast.Node) string {
	var sb strings.Builder
	printer.Fprint(&sb, e.fset, n)
	s := sb.String()
	if len(s) > 60 {
		s = s[:60]
	}
	return strings.Join(strings.Fields(s), " ")
}

func (e *Eng) srcFull(n ast.Node) string {
	var sb strings.Builder
	printer.Fprint(&sb, e.fset, n)
	return strings.Join(strings.Fields(sb.String()), " ")
}

// ---------- lvalues ----------

func (e *Eng) assign(st *State, lhs ast.Expr, v *Val) {
	switch l := lhs.(type) {
	case *ast.Ident:
		if l.Name == "_" {
			return
		}
		obj := e.info.ObjectOf(l)
		if obj == nil {
			return
		}
		st.vars[obj] = e.coerce(v, obj.Type())
	case *ast.ParenExpr:
		e.assign(st, l.X, v)
	case *ast.SelectorExpr:
		sel := e.info.Selections[l]
		if sel == nil {
			e.gap("assign to qualified %s", e.src(l))
			return
		}
		base := e.eval(st, l.X)
		ft := sel.Obj().Type()
		if base.Sort == "Struct" {
			// struct value held in a variable: functional update
			nb := &Val{Sort: "Struct", Go: base.Go, Names: base.Names, Elems: append([]*Val{}, base.Elems...)}
			for i, n := range nb.Names {
				if n == l.Sel.Name {
					nb.Elems[i] = e.coerce(v, ft)
				}
			}
			e.assign(st, l.X, nb)
			return
		}
		// pointer deref: heap write
		e.nilCheck(st, base, l.X, l.Pos())
		e.heapWrite(st, sel.Recv(), l.Sel.Name, base.T, e.coerce(v, ft), ft)
	case *ast.IndexExpr:
		base := e.eval(st, l.X)
		idx := e.eval(st, l.Index)
		bt := e.info.TypeOf(l.X).Underlying()
		switch bt := bt.(type) {
		case *types.Slice:
			e.boundsCheck(st, idx.T, base.Elems[2].T, l, l.Pos())
			e.elemWrite(st, bt.Elem(), base, idx.T, e.coerce(v, bt.Elem()))
		case *types.Map:
			if e.ownPanicsChecked() {
				e.oblige(st, "nopanic", "nil-map-write "+e.src(l), "(not (= "+base.T+" 0))", l.Pos())
			}
			e.mapWrite(st, bt, base.T, e.coerce(idx, bt.Key()), e.coerce(v, bt.Elem()))
		default:
			e.gap("index-assign on %T", bt)
		}
	case *ast.StarExpr:
		p := e.eval(st, l.X)
		pt, _ := e.info.TypeOf(l.X).Underlying().(*types.Pointer)
		if pt != nil && p.Sort == "Int" {
			e.nilCheck(st, p, l.X, l.Pos())
			if stt, ok := pt.Elem().Underlying().(*types.Struct); ok && v.Sort == "Struct" {
				for i := 0; i < stt.NumFields(); i++ {
					e.heapWrite(st, pt, stt.Field(i).Name(), p.T, v.Elems[i], stt.Field(i).Type())
				}
				return
			}
			name, _ := e.heapName("P", pt.Elem())
			e.heapWriteComp(st, name, p.T, e.coerce(v, pt.Elem()))
			return
		}
		e.gap("assign through *p: %s", e.src(l))
		e.havocHeap(st)
	default:
		e.gap("unsupported lvalue %T", lhs)
	}
}

func (e *Eng) coerce(v *Val, to types.Type) *Val {
	if v == nil {
		return e.freshVal("nilval", to)
	}
	if sortOf(to) == "Iface" && v.Sort != "Iface" {
		from := v.Go
		if from == nil {
			from = to
		}
		if v.Sort == "Nil" {
			return scalar("inil", "Iface", to)
		}
		return e.toIface(v, from)
	}
	if v.Sort == "Nil" {
		return e.zeroVal(to)
	}
	return v
}

func (e *Eng) nilCheck(st *State, base *Val, x ast.Expr, pos token.Pos) {
	if e.ownPanicsChecked() && base.Sort == "Int" {
		// `userdata v`: pointers INSIDE the value user code handed over in v (v.a, v.a.b, ...) are the user's to
		// allocate - a listed assumption; v itself is checked like everything else
		if root, path := selPath(x); root != nil && path != "" && e.con.UserData[root.Name] {
			e.gap("ASSUME pointer %s inside user-provided value %s is not nil", e.src(x), root.Name)
			e.assume(st, "(not (= "+base.T+" 0))")
			return
		}
		// receivers / params may carry requires non-nil
		e.oblige(st, "nopanic", "nil-deref "+e.src(x), "(not (= "+base.T+" 0))", pos)
	}
}

func (e *Eng) ownPanicsChecked() bool { return e.con != nil && (e.con.NoPanic || e.con.Safe) }

func (e *Eng) boundsCheck(st *State, idx, ln string, x ast.Node, pos token.Pos) {
	if e.ownPanicsChecked() {
		e.oblige(st, "nopanic", "index "+e.src(x), fmt.Sprintf("(and (<= 0 %s) (< %s %s))", idx, idx, ln), pos)
	}
}

func (e *Eng) heapWrite(st *State, recv types.Type, field, ref string, v *Val, ft types.Type) {
	if p, ok := recv.Underlying().(*types.Pointer); ok {
		recv = p.Elem()
	}
	name, _ := e.heapName("F$"+field, recv)
	e.heapWriteComp(st, name, ref, v)
}

func (e *Eng) heapWriteComp(st *State, name, ref string, v *Val) {
	e.pureWrite(st, ref, name)
	if v.Sort == "Slice" || v.Sort == "Struct" || v.Sort == "Tuple" {
		for i, el := range v.Elems {
			e.heapWriteComp(st, fmt.Sprintf("%s.%d", name, i), ref, el)
		}
		return
	}
	if v.Sort == "Nil" {
		return
	}
	srt := "(Array Int " + v.Sort + ")"
	cur := e.heapSym(st, name, srt)
	st.heap[name] = e.define("h", srt, fmt.Sprintf("(store %s %s %s)", cur, ref, v.T))
}

func (e *Eng) heapRead(st *State, recv types.Type, field, ref string, ft types.Type) *Val {
	if p, ok := recv.Underlying().(*types.Pointer); ok {
		recv = p.Elem()
	}
	name, _ := e.heapName("F$"+field, recv)
	switch sortOf(ft) {
	case "Slice":
		v := &Val{Sort: "Slice", Go: ft}
		for i := 0; i < 3; i++ {
			sub := fmt.Sprintf("%s.%d", name, i)
			cur := e.heapSym(st, sub, "(Array Int Int)")
			v.Elems = append(v.Elems, scalar(fmt.Sprintf("(select %s %s)", cur, ref), "Int", nil))
		}
		e.assume(st, fmt.Sprintf("(and (>= %s 0) (>= %s 0) (>= %s 0) (<= (+ %s %s) MAXI64) (=> (= %s 0) (= %s 0)))", v.Elems[0].T, v.Elems[1].T, v.Elems[2].T, v.Elems[1].T, v.Elems[2].T, v.Elems[0].T, v.Elems[2].T))
		return v
	case "Struct":
		return e.heapReadComp(st, name, ref, ft)
	}
	es := sortOf(ft)
	srt := "(Array Int " + es + ")"
	cur := e.heapSym(st, name, srt)
	r := scalar(fmt.Sprintf("(select %s %s)", cur, ref), es, ft)
	if es == "Int" {
		if b, ok := ft.Underlying().(*types.Basic); ok {
			if lo, hi, ok := intRange(b); ok {
				e.assume(st, fmt.Sprintf("(<= %s %s %s)", lo, r.T, hi))
			}
		} else {
			e.assume(st, fmt.Sprintf("(>= %s 0)", r.T))
		}
	}
	return r
}

// heapReadComp reads a (possibly composite) value stored under heap array family `name` at ref; the naming
// of the component arrays mirrors heapWriteComp.
func (e *Eng) heapReadComp(st *State, name, ref string, ft types.Type) *Val {
	switch sortOf(ft) {
	case "Struct":
		stt := ft.Underlying().(*types.Struct)
		v := &Val{Sort: "Struct", Go: ft}
		for i := 0; i < stt.NumFields(); i++ {
			v.Names = append(v.Names, stt.Field(i).Name())
			v.Elems = append(v.Elems, e.heapReadComp(st, fmt.Sprintf("%s.%d", name, i), ref, stt.Field(i).Type()))
		}
		return v
	case "Slice":
		v := &Val{Sort: "Slice", Go: ft}
		for i := 0; i < 3; i++ {
			cur := e.heapSym(st, fmt.Sprintf("%s.%d", name, i), "(Array Int Int)")
			v.Elems = append(v.Elems, scalar(fmt.Sprintf("(select %s %s)", cur, ref), "Int", nil))
		}
		e.assume(st, fmt.Sprintf("(and (>= %s 0) (>= %s 0) (>= %s 0) (<= (+ %s %s) MAXI64) (=> (= %s 0) (= %s 0)))", v.Elems[0].T, v.Elems[1].T, v.Elems[2].T, v.Elems[1].T, v.Elems[2].T, v.Elems[0].T, v.Elems[2].T))
		return v
	}
	es := sortOf(ft)
	if es != "Int" && es != "Bool" && es != "Str" && es != "Iface" && es != "F64" {
		es = "Int"
	}
	cur := e.heapSym(st, name, "(Array Int "+es+")")
	r := scalar(fmt.Sprintf("(select %s %s)", cur, ref), es, ft)
	switch es {
	case "Int":
		if b, ok := ft.Underlying().(*types.Basic); ok {
			if lo, hi, ok := intRange(b); ok {
				e.assume(st, fmt.Sprintf("(<= %s %s %s)", lo, r.T, hi))
			}
		} else {
			e.assume(st, fmt.Sprintf("(>= %s 0)", r.T))
		}
	case "Iface":
		e.assume(st, fmt.Sprintf("(iwf %s)", r.T))
	case "Str":
		e.assume(st, fmt.Sprintf("(and (>= (slen %s) 0) (<= (slen %s) MAXI64))", r.T, r.T))
	}
	return r
}

func elemSort(t types.Type) string {
	s := sortOf(t)
	switch s {
	case "Int", "Bool", "Str", "Iface", "F64":
		return s
	}
	return "Int"
}

func (e *Eng) elemsHeap(st *State, elem types.Type) (string, string) {
	name := "E$" + types.TypeString(elem, func(p *types.Package) string { return p.Name() })
	srt := "(Array Int (Array Int " + elemSort(elem) + "))"
	return name, srt
}

// elemComp reads element idx of a slice whose element type is composite: one element array per component.
func (e *Eng) elemComp(st *State, name string, t types.Type, sl *Val, idx string) *Val {
	switch sortOf(t) {
	case "Struct":
		stt := t.Underlying().(*types.Struct)
		v := &Val{Sort: "Struct", Go: t}
		for i := 0; i < stt.NumFields(); i++ {
			v.Names = append(v.Names, stt.Field(i).Name())
			v.Elems = append(v.Elems, e.elemComp(st, fmt.Sprintf("%s.%d", name, i), stt.Field(i).Type(), sl, idx))
		}
		return v
	case "Slice":
		v := &Val{Sort: "Slice", Go: t}
		for i := 0; i < 3; i++ {
			cur := e.heapSym(st, fmt.Sprintf("%s.%d", name, i), "(Array Int (Array Int Int))")
			v.Elems = append(v.Elems, scalar(fmt.Sprintf("(select (select %s %s) (+ %s %s))", cur, sl.Elems[0].T, sl.Elems[1].T, idx), "Int", nil))
		}
		e.assume(st, fmt.Sprintf("(and (>= %s 0) (>= %s 0) (>= %s 0) (<= (+ %s %s) MAXI64) (=> (= %s 0) (= %s 0)))", v.Elems[0].T, v.Elems[1].T, v.Elems[2].T, v.Elems[1].T, v.Elems[2].T, v.Elems[0].T, v.Elems[2].T))
		return v
	}
	es := elemSort(t)
	cur := e.heapSym(st, name, "(Array Int (Array Int "+es+"))")
	r := scalar(fmt.Sprintf("(select (select %s %s) (+ %s %s))", cur, sl.Elems[0].T, sl.Elems[1].T, idx), es, t)
	switch es {
	case "Int":
		if b, ok := t.Underlying().(*types.Basic); ok {
			if lo, hi, ok := intRange(b); ok {
				e.assume(st, fmt.Sprintf("(<= %s %s %s)", lo, r.T, hi))
			}
		} else {
			e.assume(st, fmt.Sprintf("(>= %s 0)", r.T))
		}
	case "Iface":
		e.assume(st, fmt.Sprintf("(iwf %s)", r.T))
	}
	return r
}

func (e *Eng) elemCompWrite(st *State, name string, sl *Val, idx string, v *Val) {
	switch v.Sort {
	case "Struct", "Slice", "Tuple":
		for i, el := range v.Elems {
			e.elemCompWrite(st, fmt.Sprintf("%s.%d", name, i), sl, idx, el)
		}
		return
	case "Nil":
		return
	}
	srt := "(Array Int (Array Int " + v.Sort + "))"
	cur := e.heapSym(st, name, srt)
	inner := fmt.Sprintf("(store (select %s %s) (+ %s %s) %s)", cur, sl.Elems[0].T, sl.Elems[1].T, idx, v.T)
	st.heap[name] = e.define("h", srt, fmt.Sprintf("(store %s %s %s)", cur, sl.Elems[0].T, inner))
}

func (e *Eng) elemRead(st *State, elem types.Type, sl *Val, idx string) *Val {
	if s := sortOf(elem); s == "Struct" || s == "Slice" {
		name, _ := e.elemsHeap(st, elem)
		return e.elemComp(st, name, elem, sl, idx)
	}
	name, srt := e.elemsHeap(st, elem)
	cur := e.heapSym(st, name, srt)
	t := fmt.Sprintf("(select (select %s %s) (+ %s %s))", cur, sl.Elems[0].T, sl.Elems[1].T, idx)
	es := elemSort(elem)
	if sortOf(elem) != es {
		e.gap("slice element of composite type %s abstracted", elem)
		return e.freshVal("elem", elem)
	}
	return scalar(t, es, elem)
}

func (e *Eng) elemWrite(st *State, elem types.Type, sl *Val, idx string, v *Val) {
	e.pureWrite(st, sl.Elems[0].T, "slice element")
	if s := sortOf(elem); (s == "Struct" || s == "Slice") && v.Sort == s {
		name, _ := e.elemsHeap(st, elem)
		e.elemCompWrite(st, name, sl, idx, v)
		return
	}
	name, srt := e.elemsHeap(st, elem)
	cur := e.heapSym(st, name, srt)
	if v.Sort != elemSort(elem) {
		e.gap("slice element write of composite abstracted")
		return
	}
	inner := fmt.Sprintf("(store (select %s %s) (+ %s %s) %s)", cur, sl.Elems[0].T, sl.Elems[1].T, idx, v.T)
	st.heap[name] = e.define("h", srt, fmt.Sprintf("(store %s %s %s)", cur, sl.Elems[0].T, inner))
}

func (e *Eng) mapHeaps(st *State, mt *types.Map) (has, hasSort, val, valSort string) {
	k := elemSort(mt.Key())
	v := elemSort(mt.Elem())
	base := types.TypeString(mt, func(p *types.Package) string { return p.Name() })
	return "MH$" + base, "(Array Int (Array " + k + " Bool))", "MV$" + base, "(Array Int (Array " + k + " " + v + "))"
}

func (e *Eng) mapRead(st *State, mt *types.Map, ref string, key *Val) (*Val, string) {
	hn, hs, vn, vs := e.mapHeaps(st, mt)
	h := e.heapSym(st, hn, hs)
	v := e.heapSym(st, vn, vs)
	has := fmt.Sprintf("(and (not (= %s 0)) (select (select %s %s) %s))", ref, h, ref, key.T)
	es := elemSort(mt.Elem())
	if sortOf(mt.Elem()) != es {
		e.gap("map value of composite type abstracted")
		return e.freshVal("mv", mt.Elem()), has
	}
	zero := e.zeroVal(mt.Elem())
	val := fmt.Sprintf("(ite %s (select (select %s %s) %s) %s)", has, v, ref, key.T, zero.T)
	return scalar(e.define("mv", es, val), es, mt.Elem()), has
}

func (e *Eng) mapWrite(st *State, mt *types.Map, ref string, key, v *Val) {
	e.pureWrite(st, ref, "map element")
	hn, hs, vn, vs := e.mapHeaps(st, mt)
	h := e.heapSym(st, hn, hs)
	vv := e.heapSym(st, vn, vs)
	st.heap[hn] = e.define("h", hs, fmt.Sprintf("(store %s %s (store (select %s %s) %s true))", h, ref, h, ref, key.T))
	if v.Sort == elemSort(mt.Elem()) {
		st.heap[vn] = e.define("h", vs, fmt.Sprintf("(store %s %s (store (select %s %s) %s %s))", vv, ref, vv, ref, key.T, v.T))
	} else {
		e.gap("map write of composite abstracted")
	}
}

// ---------- expressions ----------

func (e *Eng) eval(st *State, x ast.Expr) *Val {
	if tv, ok := e.info.Types[x]; ok && tv.Value != nil {
		return constToVal(e, tv)
	}
	switch x := x.(type) {
	case *ast.ParenExpr:
		return e.eval(st, x.X)
	case *ast.Ident:
		if x.Name == "nil" {
			return &Val{Sort: "Nil", T: "0"}
		}
		if x.Name == "true" || x.Name == "false" {
			return scalar(x.Name, "Bool", types.Typ[types.Bool])
		}
		obj := e.info.ObjectOf(x)
		if v, ok := st.vars[obj]; ok {
			return v
		}
		if _, isVar := obj.(*types.Var); isVar {
			// package-level var or untracked: opaque but stable per function
			key := "G$" + obj.Pkg().Name() + "." + obj.Name()
			v := e.globalVal(key, obj.Type())
			return v
		}
		if _, isFn := obj.(*types.Func); isFn {
			return scalar("1", "Int", obj.Type())
		}
		e.gap("ident %s", x.Name)
		return e.freshVal(x.Name, e.info.TypeOf(x))
	case *ast.BasicLit:
		return e.freshVal("lit", e.info.TypeOf(x))
	case *ast.UnaryExpr:
		v := e.eval(st, x.X)
		t := e.info.TypeOf(x)
		switch x.Op {
		case token.NOT:
			return scalar(not(v.T), "Bool", t)
		case token.SUB:
			return scalar(e.wrap(t, "(- "+v.T+")"), "Int", t)
		case token.ARROW:
			// channel receive: the value received is unknown; the receive itself is a ghost event
			e.chanEvent(st, "recv", x.X, x.Pos())
			return e.freshVal("recv", t)
		case token.AND:
			if cl, ok := x.X.(*ast.CompositeLit); ok {
				return e.allocStruct(st, cl)
			}
			e.gap("address-of %s abstracted", e.src(x.X))
			pv := e.freshNonNil("addr", t)
			if pt, ok := t.Underlying().(*types.Pointer); ok {
				if _, basic := pt.Elem().Underlying().(*types.Basic); basic {
					// remembered for contracts only (`deref(res0) == f.description` on `return &f.description`): what the
					// pointer points at, at the moment the address is taken
					if cur := e.eval(st, x.X); cur != nil && cur.Sort != "" && len(cur.Elems) == 0 {
						pv.Pointee = cur
					}
				}
			}
			return pv
		}
		e.gap("unary %s", x.Op)
		return e.freshVal("un", t)
	case *ast.BinaryExpr:
		return e.evalBinary(st, x)
	case *ast.CallExpr:
		vals := e.evalCall(st, x)
		if len(vals) == 1 {
			return vals[0]
		}
		return &Val{Sort: "Tuple", Elems: vals}
	case *ast.SelectorExpr:
		if sel := e.info.Selections[x]; sel != nil {
			if sel.Kind() == types.MethodVal {
				return scalar("1", "Int", sel.Type())
			}
			base := e.eval(st, x.X)
			return e.selectPath(st, base, e.info.TypeOf(x.X), sel, x)
		}
		// qualified identifier
		obj := e.info.ObjectOf(x.Sel)
		if obj != nil {
			if _, isVar := obj.(*types.Var); isVar {
				return e.globalVal("G$"+obj.Pkg().Name()+"."+obj.Name(), obj.Type())
			}
		}
		return e.freshVal("qual", e.info.TypeOf(x))
	case *ast.IndexExpr:
		base := e.eval(st, x.X)
		bt := e.info.TypeOf(x.X).Underlying()
		switch bt := bt.(type) {
		case *types.Slice:
			idx := e.eval(st, x.Index)
			e.boundsCheck(st, idx.T, base.Elems[2].T, x, x.Pos())
			return e.elemRead(st, bt.Elem(), base, idx.T)
		case *types.Basic: // string
			idx := e.eval(st, x.Index)
			e.boundsCheck(st, idx.T, "(slen "+base.T+")", x, x.Pos())
			r := scalar(fmt.Sprintf("(sbyte %s %s)", base.T, idx.T), "Int", types.Typ[types.Uint8])
			e.assume(st, fmt.Sprintf("(<= 0 %s 255)", r.T))
			return r
		case *types.Map:
			key := e.coerce(e.eval(st, x.Index), bt.Key())
			v, _ := e.mapRead(st, bt, base.T, key)
			v.FromMap = true
			return v
		}
		e.gap("index on %T", bt)
		return e.freshVal("idx", e.info.TypeOf(x))
	case *ast.SliceExpr:
		return e.evalSlice(st, x)
	case *ast.TypeAssertExpr:
		v := e.eval(st, x.X)
		t := e.info.TypeOf(x.Type)
		if sortOf(t) == "Iface" {
			ok := e.implTerm(v, t)
			if e.ownPanicsChecked() {
				e.oblige(st, "nopanic", "type-assert "+e.src(x), ok, x.Pos())
			} else {
				e.assume(st, ok)
			}
			return scalar(v.T, "Iface", t)
		}
		tagOK := fmt.Sprintf("(= (itag %s) %d)", v.T, e.tagOf(t))
		if e.ownPanicsChecked() {
			e.oblige(st, "nopanic", "type-assert "+e.src(x), tagOK, x.Pos())
		} else {
			e.assume(st, tagOK)
		}
		e.ifacePayloadFacts(st, v, t)
		return e.fromIface(v, t)
	case *ast.CompositeLit:
		return e.evalComposite(st, x)
	case *ast.StarExpr:
		p := e.eval(st, x.X)
		pt, _ := e.info.TypeOf(x.X).Underlying().(*types.Pointer)
		if pt != nil && p.Sort == "Int" {
			e.nilCheck(st, p, x.X, x.Pos())
			if stt, ok := pt.Elem().Underlying().(*types.Struct); ok {
				v := &Val{Sort: "Struct", Go: pt.Elem()}
				for i := 0; i < stt.NumFields(); i++ {
					v.Names = append(v.Names, stt.Field(i).Name())
					v.Elems = append(v.Elems, e.heapRead(st, pt, stt.Field(i).Name(), p.T, stt.Field(i).Type()))
				}
				return v
			}
			name, _ := e.heapName("P", pt.Elem())
			return e.heapReadComp(st, name, p.T, pt.Elem())
		}
		e.gap("deref %s abstracted", e.src(x))
		return e.freshVal("deref", e.info.TypeOf(x))
	case *ast.FuncLit:
		v := e.freshNonNil("closure", e.info.TypeOf(x))
		v.Lit = x
		return v
	}
	e.gap("unsupported expr %T", x)
	return e.freshVal("expr", e.info.TypeOf(x))
}

func (e *Eng) freshNonNil(name string, t types.Type) *Val {
	v := e.freshVal(name, t)
	if v.Sort == "Int" {
		e.decls = append(e.decls, fmt.Sprintf("(assert (> %s 0))", v.T))
		e.declareOnce("(declare-fun islocal (Int) Bool)")
		e.decls = append(e.decls, fmt.Sprintf("(assert (islocal %s))", v.T))
		if e.localRefs == nil {
			e.localRefs = map[string]bool{}
		}
		e.localRefs[v.T] = true
	}
	return v
}

// pureWrite: a function declared `pure` may only write objects it allocated itself.
func (e *Eng) pureWrite(st *State, ref string, what string) {
	if e.con != nil && e.con.Pure && !e.localRefs[ref] {
		e.declareOnce("(declare-fun islocal (Int) Bool)")
		e.oblige(st, "pure", "heap-write "+what, "(islocal "+ref+")", token.NoPos)
	}
	if e.con != nil && e.con.HasFrame && !e.localRefs[ref] {
		e.declareOnce("(declare-fun islocal (Int) Bool)")
		name := what
		switch what {
		case "slice element":
			name = "E$"
		case "map element":
			name = "MH$"
		}
		if !frameMatchAny(name, e.con.Modifies) {
			// allowed only if the object written was allocated by this very function
			e.oblige(st, "modifies", "heap-write outside frame "+what, "(islocal "+ref+")", token.NoPos)
		}
	}
}

func (e *Eng) globalVal(key string, t types.Type) *Val {
	if v, ok := e.globals[key]; ok {
		return v
	}
	v := e.freshVal(key, t)
	e.globals[key] = v
	return v
}

func (e *Eng) selectPath(st *State, base *Val, baseT types.Type, sel *types.Selection, x *ast.SelectorExpr) *Val {
	// walk implicit embedded path
	cur := base
	curT := baseT
	idx := sel.Index()
	for k, i := range idx {
		var stt *types.Struct
		isPtr := false
		if p, ok := curT.Underlying().(*types.Pointer); ok {
			isPtr = true
			stt, _ = p.Elem().Underlying().(*types.Struct)
		} else {
			stt, _ = curT.Underlying().(*types.Struct)
		}
		if stt == nil {
			e.gap("select on non-struct %s", curT)
			return e.freshVal("sel", sel.Type())
		}
		f := stt.Field(i)
		if isPtr {
			if k == 0 {
				e.nilCheck(st, cur, x.X, x.Pos())
			}
			cur = e.heapRead(st, curT, f.Name(), cur.T, f.Type())
		} else {
			fv := cur.field(f.Name())
			if fv == nil {
				e.gap("missing struct component %s", f.Name())
				fv = e.freshVal("fld", f.Type())
			}
			cur = fv
		}
		curT = f.Type()
	}
	return cur
}

func (e *Eng) allocStruct(st *State, cl *ast.CompositeLit) *Val {
	t := e.info.TypeOf(cl)
	ref := e.freshNonNil("new", types.NewPointer(t))
	sv := e.evalComposite(st, cl)
	if sv.Sort == "Struct" {
		for i, n := range sv.Names {
			stt := t.Underlying().(*types.Struct)
			e.heapWrite(st, t, n, ref.T, sv.Elems[i], stt.Field(i).Type())
		}
	}
	return scalar(ref.T, "Int", types.NewPointer(t))
}

func (e *Eng) evalComposite(st *State, cl *ast.CompositeLit) *Val {
	t := e.info.TypeOf(cl)
	switch u := t.Underlying().(type) {
	case *types.Struct:
		v := e.zeroVal(t)
		for i, el := range cl.Elts {
			if kv, ok := el.(*ast.KeyValueExpr); ok {
				name := kv.Key.(*ast.Ident).Name
				for j, n := range v.Names {
					if n == name {
						v.Elems[j] = e.coerce(e.eval(st, kv.Value), u.Field(j).Type())
					}
				}
			} else {
				v.Elems[i] = e.coerce(e.eval(st, el), u.Field(i).Type())
			}
		}
		return v
	case *types.Slice:
		arr := e.freshNonNil("lit.arr", types.Typ[types.Uintptr])
		sl := &Val{Sort: "Slice", Go: t, Elems: []*Val{arr, scalar("0", "Int", nil), scalar(fmt.Sprint(len(cl.Elts)), "Int", nil)}}
		for i, el := range cl.Elts {
			e.elemWrite(st, u.Elem(), sl, fmt.Sprint(i), e.coerce(e.eval(st, el), u.Elem()))
		}
		return sl
	case *types.Map:
		ref := e.freshNonNil("lit.map", t)
		hn, hs, _, _ := e.mapHeaps(st, u)
		h := e.heapSym(st, hn, hs)
		// fresh map: no keys
		ks := elemSort(u.Key())
		st.heap[hn] = e.define("h", hs, fmt.Sprintf("(store %s %s ((as const (Array %s Bool)) false))", h, ref.T, ks))
		for _, el := range cl.Elts {
			kv := el.(*ast.KeyValueExpr)
			e.mapWrite(st, u, ref.T, e.coerce(e.eval(st, kv.Key), u.Key()), e.coerce(e.eval(st, kv.Value), u.Elem()))
		}
		return ref
	}
	e.gap("composite literal of %s", t)
	return e.freshVal("lit", t)
}

func (e *Eng) evalSlice(st *State, x *ast.SliceExpr) *Val {
	base := e.eval(st, x.X)
	bt := e.info.TypeOf(x.X).Underlying()
	lo := "0"
	if x.Low != nil {
		lo = e.eval(st, x.Low).T
	}
	switch bt.(type) {
	case *types.Basic: // string
		hi := "(slen " + base.T + ")"
		if x.High != nil {
			hi = e.eval(st, x.High).T
		}
		if e.ownPanicsChecked() {
			e.oblige(st, "nopanic", "slice "+e.src(x), fmt.Sprintf("(and (<= 0 %s) (<= %s %s) (<= %s (slen %s)))", lo, lo, hi, hi, base.T), x.Pos())
		}
		e.ensureSubstr()
		return scalar(fmt.Sprintf("(substr %s %s %s)", base.T, lo, hi), "Str", e.info.TypeOf(x))
	case *types.Slice:
		hi := base.Elems[2].T
		if x.High != nil {
			hi = e.eval(st, x.High).T
		}
		if e.ownPanicsChecked() {
			// note: upper bound is cap, we conservatively use len (stronger)
			e.oblige(st, "nopanic", "slice "+e.src(x), fmt.Sprintf("(and (<= 0 %s) (<= %s %s) (<= %s %s))", lo, lo, hi, hi, base.Elems[2].T), x.Pos())
		}
		return &Val{Sort: "Slice", Go: e.info.TypeOf(x), Elems: []*Val{base.Elems[0], scalar(fmt.Sprintf("(+ %s %s)", base.Elems[1].T, lo), "Int", nil), scalar(fmt.Sprintf("(- %s %s)", hi, lo), "Int", nil)}}
	}
	e.gap("slice of %T", bt)
	return e.freshVal("sl", e.info.TypeOf(x))
}

func (e *Eng) ensureSubstr() {
	if !e.substrDone {
		e.substrDone = true
		e.decls = append(e.decls, "(declare-fun substr (Str Int Int) Str)",
			"(assert (forall ((s Str) (a Int) (b Int)) (! (=> (and (<= 0 a) (<= a b) (<= b (slen s))) (= (slen (substr s a b)) (- b a))) :pattern ((substr s a b)))))",
			"(assert (forall ((s Str) (a Int) (b Int) (k Int)) (! (=> (and (<= 0 a) (<= a b) (<= b (slen s)) (<= 0 k) (< k (- b a))) (= (sbyte (substr s a b) k) (sbyte s (+ a k)))) :pattern ((sbyte (substr s a b) k)))))")
	}
}

func (e *Eng) evalBinary(st *State, x *ast.BinaryExpr) *Val {
	t := e.info.TypeOf(x)
	if x.Op == token.LAND || x.Op == token.LOR {
		l := e.eval(st, x.X)
		// short-circuit: evaluate rhs under assumption
		need := l.T
		if x.Op == token.LOR {
			need = not(l.T)
		}
		hasCall := false
		ast.Inspect(x.Y, func(n ast.Node) bool {
			if _, ok := n.(*ast.CallExpr); ok {
				hasCall = true
			}
			return !hasCall
		})
		sub := st.clone()
		sub.path = e.define("p", "Bool", and(st.path, need))
		r := e.eval(sub, x.Y)
		if hasCall {
			// the right operand may have effects (calls, ghost updates, havoc): merge like `if`
			skip := st.clone()
			skip.path = e.define("p", "Bool", and(st.path, not(need)))
			var outs []*State
			outs = append(outs, skip)
			if !sub.dead {
				outs = append(outs, sub)
			}
			m := e.merge(outs)
			*st = *m
		}
		if r == nil {
			r = scalar("false", "Bool", t)
		}
		if x.Op == token.LAND {
			return scalar(e.define("b", "Bool", fmt.Sprintf("(and %s %s)", l.T, r.T)), "Bool", t)
		}
		return scalar(e.define("b", "Bool", fmt.Sprintf("(or %s %s)", l.T, r.T)), "Bool", t)
	}
	l := e.eval(st, x.X)
	r := e.eval(st, x.Y)
	lt := e.info.TypeOf(x.X)
	switch x.Op {
	case token.EQL, token.NEQ:
		var eq string
		switch {
		case l.Sort == "Nil" && r.Sort == "Nil":
			eq = "true"
		case l.Sort == "Nil" || r.Sort == "Nil":
			o := l
			if l.Sort == "Nil" {
				o = r
			}
			switch o.Sort {
			case "Iface":
				eq = fmt.Sprintf("(= (itag %s) 0)", o.T)
			case "Slice":
				eq = fmt.Sprintf("(= %s 0)", o.Elems[0].T)
			default:
				eq = fmt.Sprintf("(= %s 0)", o.T)
			}
		case l.Sort == "Iface" || r.Sort == "Iface":
			li := e.coerce(l, types.NewInterfaceType(nil, nil))
			ri := e.coerce(r, types.NewInterfaceType(nil, nil))
			eq = fmt.Sprintf("(= %s %s)", li.T, ri.T)
		case l.Sort == "Struct":
			e.gap("struct equality abstracted")
			eq = e.freshVal("eq", types.Typ[types.Bool]).T
		case l.Sort == "Str" && (l.T == e.strLit("") || r.T == e.strLit("")):
			o := l
			if l.T == e.strLit("") {
				o = r
			}
			eq = fmt.Sprintf("(= (slen %s) 0)", o.T)
		default:
			eq = fmt.Sprintf("(= %s %s)", l.T, r.T)
		}
		if x.Op == token.NEQ {
			eq = not(eq)
		}
		return scalar(eq, "Bool", t)
	case token.LSS, token.LEQ, token.GTR, token.GEQ:
		if l.Sort != "Int" {
			e.gap("ordered comparison on %s abstracted", l.Sort)
			return e.freshVal("cmp", types.Typ[types.Bool])
		}
		op := map[token.Token]string{token.LSS: "<", token.LEQ: "<=", token.GTR: ">", token.GEQ: ">="}[x.Op]
		return scalar(fmt.Sprintf("(%s %s %s)", op, l.T, r.T), "Bool", t)
	case token.ADD:
		if l.Sort == "Str" && r.Sort == "Str" {
			// concatenation: an uninterpreted function of both operands with the exact length
			e.declareOnce("(declare-fun sconcat (Str Str) Str)")
			v := scalar(fmt.Sprintf("(sconcat %s %s)", l.T, r.T), "Str", t)
			e.assume(st, fmt.Sprintf("(= (slen %s) (+ (slen %s) (slen %s)))", v.T, l.T, r.T))
			return v
		}
		if l.Sort == "Int" {
			return scalar(e.define("a", "Int", e.wrap(t, fmt.Sprintf("(+ %s %s)", l.T, r.T))), "Int", t)
		}
	case token.SUB:
		if l.Sort == "Int" {
			return scalar(e.define("a", "Int", e.wrap(t, fmt.Sprintf("(- %s %s)", l.T, r.T))), "Int", t)
		}
	case token.QUO, token.REM:
		if tv, ok := e.info.Types[x.Y]; ok && tv.Value != nil && l.Sort == "Int" {
			c := atoi(tv.Value.ExactString())
			if c > 0 {
				// Go division truncates toward zero
				q := fmt.Sprintf("(ite (>= %s 0) (div %s %d) (- (div (- %s) %d)))", l.T, l.T, c, l.T, c)
				if x.Op == token.QUO {
					return scalar(e.define("q", "Int", q), "Int", t)
				}
				return scalar(e.define("r", "Int", fmt.Sprintf("(- %s (* %d %s))", l.T, c, q)), "Int", t)
			}
		}
	case token.SHR:
		// exact for non-negative lhs and constant rhs
		if tv, ok := e.info.Types[x.Y]; ok && tv.Value != nil {
			n := tv.Value.ExactString()
			pow := "1"
			for i := 0; i < atoi(n); i++ {
				pow = mulStr(pow)
			}
			e.gap("right shift modelled as div (exact for non-negative operand)")
			return scalar(fmt.Sprintf("(div %s %s)", l.T, pow), "Int", t)
		}
	case token.AND:
		if tv, ok := e.info.Types[x.Y]; ok && tv.Value != nil {
			m := atoi(tv.Value.ExactString())
			if m > 0 && (m+1)&m == 0 {
				e.gap("mask modelled as mod (exact for non-negative operand)")
				return scalar(fmt.Sprintf("(mod %s %d)", l.T, m+1), "Int", t)
			}
		}
	}
	_ = lt
	e.gap("binary op %s on %s abstracted", x.Op, l.Sort)
	return e.freshVal("bin", t)
}

func atoi(s string) int {
	n := 0
	fmt.Sscanf(s, "%d", &n)
	return n
}
func mulStr(p string) string { return fmt.Sprint(atoi(p) * 2) }
