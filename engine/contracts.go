package main

// Contract files: comment-only Go files `verif_contracts.go` (build tag verif) inside /repo packages.
// Every contract line starts with `//@`. Grammar (one clause per line, continuation lines start with `//@   |`):
//
//   theory <name>                      file-level SMT section; following `smt` lines belong to it
//   smt <smtlib text>                  raw SMT-LIB (inside theory or inside a func block)
//   trusted <FullName>(p1, p2) (r1, r2)   assumed contract of a dependency / unverified function
//   func <Name | (T).Name | (*T).Name> [C01,C02]   contract of a function of this package, tagged with properties
//   family <regexp on short key> [Cxx] kind=<name>  family contract for generated functions (see family.go)
//     requires E / ensures E / nopanic / noescape / pure / uses <theory>... / replay <template>
//     ghost g = E
//     loop N: invariant E
//     at `call text`[#k] requires E | ghost g = E | assume E
//     callsite <FullName-or-suffix>: requires E
//     params a, b / results x, y       rename parameters/results for the clauses

import (
	"bufio"
	"fmt"
	"os"
	"regexp"
	"strconv"
	"strings"
)

type ReplaySel struct{ Tmpl, For string }

// replayFor picks the replay template for a failed obligation: a `replay T for S` whose S occurs in the obligation
// name wins over the function's general `replay T`.
func (c *Contract) replayFor(obl string) string {
	for _, r := range c.ReplayFor {
		if strings.Contains(obl, r.For) {
			return r.Tmpl
		}
	}
	return c.Replay
}

type AtClause struct {
	Prop string // "" or the only property this clause belongs to (written `requires @Cxx E`)
	Kind string // requires | ghost | assume
	Name string
	Expr *SExpr
	Src  string
}

type CallsiteClause struct {
	Callee string
	Expr   *SExpr
	Src    string
}

// RunsClause: `runs <param> with g = E, h = F` - the callee calls its function parameter once, synchronously;
// while it runs the caller's ghost variables g, h have the given values (e.g. held = true under the callee's lock).
type RunsClause struct {
	Param  string
	Ghosts []AtClause
}

type Contract struct {
	Key           string
	Pkg           string // package path of the file it was declared in
	Props         []string
	Trusted       bool
	Family        *regexp.Regexp
	FamKind       string
	Params        []string
	Results       []string
	Requires      []*SExpr
	Ensures       []*SExpr
	EnsSrc        []string
	OnExit        []*SExpr // onexit E: checked at every exit, returns and escaping panics alike (after the deferred calls ran)
	OnExitSrc     []string
	OnExitProp    []string
	EnsProp       []string // per-clause property restriction ("" = every property the block is tagged with)
	GoEnsProp     []string
	GoEnsures     []*SExpr // evaluated at the normal end of every goroutine the function spawns
	NoPanic       bool
	NoEscape      bool
	GoSafe        bool // spawn rule: no panic may escape a goroutine started by this function
	AssumeNoPanic bool
	InLoop        []*SExpr // inloop ensures E: checked at every return statement lexically inside a loop body
	InLoopSrc     []string
	UserData      map[string]bool // userdata v: nested pointers inside the user-provided value v are assumed allocated
	Safe          bool // implicit panic sites of the function's own code are obligations; callee panics propagate
	Pure          bool
	Uses          []string
	Invs          map[int][]*SExpr
	Steps         map[int][]*SExpr
	Ghosts        []AtClause
	At            map[string][]AtClause
	Callsites     []CallsiteClause
	Runs          []RunsClause // the function synchronously invokes a function-typed argument exactly once
	Modifies      []string     // frame: the only heap locations the function may write (Type.field | elems | maps | ptrs)
	HasFrame      bool
	Stable        []string // heap fields (Type.field) assumed not to be written by any callee of this function
	RawSMT        []string
	Replay        string
	ReplayFor     []ReplaySel // replay <template> for <substring of the obligation name>
	File          string
	Line          int
	atUsed        map[string]bool
	OptAt         map[string]bool // anchors that may be absent (written at? `...`)
	MustAt        map[string]bool // anchors that must exist even in family members (written at! `...`)
}

func (c *Contract) hasProp(id string) bool {
	for _, p := range c.Props {
		if p == id {
			return true
		}
	}
	return false
}

func (c *Contract) hasAnyProp(ids []string) bool {
	for _, id := range ids {
		if c.hasProp(id) {
			return true
		}
	}
	return false
}

type ContractSet struct {
	ByKey     map[string]*Contract
	Order     []string
	Families  []*Contract
	Theories  map[string][]string  // name -> smt lines
	SpecSigs  map[string][2]string // uninterpreted spec functions: name -> (argument sorts, result sort)
	Files     []string
	Assumes   []string             // every `assume` clause found (reported)
	TrustedIn map[string]*Contract // "declaring package|callee key" -> trusted declaration
}

// lookup finds the contract callers in package fromPkg use for callee key: the function's own verified contract,
// else the trusted declaration of fromPkg, else the first trusted declaration in package-path order.
func (cs *ContractSet) lookup(key, fromPkg string) *Contract {
	if c := cs.ByKey[key]; c != nil && !c.Trusted {
		return c
	}
	if c := cs.TrustedIn[fromPkg+"|"+key]; c != nil {
		return c
	}
	// otherwise only the callee's HOME package may speak for it (the interface contract of graphql.GraphExecutor lives
	// in graphql/verif_contracts.go and is shared by every transport): what an unrelated third package happens to
	// declare about, say, sync.WaitGroup must not leak in - results would depend on which packages a check loads
	if home := keyHomePkg(key); home != "" && home != fromPkg {
		if c := cs.TrustedIn[home+"|"+key]; c != nil {
			return c
		}
	}
	if os.Getenv("GOCV_LAX_TRUST") != "" {
		return cs.ByKey[key]
	}
	return nil
}

// keyHomePkg extracts the package path a callee key belongs to: "(*p/q.T).M", "(p/q.T).M", "p/q.F",
// "field:p/q.T.f", "field:*p/q.T.f"; "" for dyn: keys and builtins.
func keyHomePkg(key string) string {
	k := strings.TrimPrefix(key, "field:")
	if strings.HasPrefix(k, "dyn:") {
		return ""
	}
	k = strings.TrimPrefix(k, "(")
	k = strings.TrimPrefix(k, "*")
	// cut at the first '.' after the last '/'
	slash := strings.LastIndex(k, "/")
	dot := strings.Index(k[slash+1:], ".")
	if dot < 0 {
		return ""
	}
	return k[:slash+1+dot]
}

func newContractSet() *ContractSet {
	return &ContractSet{TrustedIn: map[string]*Contract{}, ByKey: map[string]*Contract{}, Theories: map[string][]string{}, SpecSigs: map[string][2]string{}}
}

var sigRe = regexp.MustCompile(`^(\([^)]*\)\.[^\s(\[]+|[^\s(\[]+)\s*(?:\(([^)]*)\))?(?:\s*\(([^)]*)\))?\s*(?:\[([^\]]*)\])?\s*(.*)$`)

func splitNames(s string) []string {
	var out []string
	for _, p := range strings.Split(s, ",") {
		p = strings.TrimSpace(p)
		if p != "" {
			out = append(out, p)
		}
	}
	return out
}

// qualify turns a package-relative key (`safeAdd`, `(T).M`, `(*T).M`) into types.Func.FullName form.
func qualify(pkgPath, key string) string {
	if strings.Contains(key, "/") || strings.HasPrefix(key, "dyn:") || strings.HasPrefix(key, "field:") {
		return key
	}
	if strings.HasPrefix(key, "(") {
		i := strings.Index(key, ")")
		recv := key[1:i]
		rest := key[i+1:]
		if strings.Contains(recv, ".") || recv == "error" {
			return key
		}
		if strings.HasPrefix(recv, "*") {
			return "(*" + pkgPath + "." + recv[1:] + ")" + rest
		}
		return "(" + pkgPath + "." + recv + ")" + rest
	}
	if strings.Contains(key, ".") {
		return key // already pkg.Name of stdlib, e.g. strconv.Atoi
	}
	return pkgPath + "." + key
}

func (cs *ContractSet) loadFile(path, pkgPath string) error {
	f, err := os.Open(path)
	if err != nil {
		return err
	}
	defer f.Close()
	cs.Files = append(cs.Files, path)
	var cur *Contract
	curTheory := ""
	sc := bufio.NewScanner(f)
	sc.Buffer(make([]byte, 1<<20), 1<<20)
	lineNo := 0
	var lines []string
	var lineNos []int
	for sc.Scan() {
		lineNo++
		raw := strings.TrimSpace(sc.Text())
		if !strings.HasPrefix(raw, "//@") {
			continue
		}
		line := strings.TrimSpace(strings.TrimPrefix(raw, "//@"))
		if line == "" || strings.HasPrefix(line, "#") {
			continue
		}
		if strings.HasPrefix(line, "|") && len(lines) > 0 {
			lines[len(lines)-1] += " " + strings.TrimSpace(line[1:])
			continue
		}
		lines = append(lines, line)
		lineNos = append(lineNos, lineNo)
	}
	fail := func(i int, format string, a ...any) error {
		return fmt.Errorf("%s:%d: %s", path, lineNos[i], fmt.Sprintf(format, a...))
	}
	for i, line := range lines {
		word, rest, _ := strings.Cut(line, " ")
		rest = strings.TrimSpace(rest)
		parse := func(s string) (*SExpr, error) {
			x, err := ParseSpec(s)
			if err != nil {
				return nil, fail(i, "%v", err)
			}
			return x, nil
		}
		switch word {
		case "spec":
			// spec name(sort, sort) sort    with sorts in {int, bool, string, any, ref}
			m := regexp.MustCompile(`^(\w+)\(([^)]*)\)\s*(\w+)$`).FindStringSubmatch(rest)
			if m == nil {
				return fail(i, "bad spec declaration: %s", line)
			}
			conv := func(s string) string {
				switch strings.TrimSpace(s) {
				case "bool":
					return "Bool"
				case "string":
					return "Str"
				case "any":
					return "Iface"
				}
				return "Int"
			}
			var as []string
			for _, a := range splitNames(m[2]) {
				as = append(as, conv(a))
			}
			cs.SpecSigs[m[1]] = [2]string{strings.Join(as, " "), conv(m[3])}
		case "theory":
			curTheory = rest
			cur = nil
			if _, dup := cs.Theories[rest]; !dup {
				cs.Theories[rest] = nil
			}
		case "func", "trusted", "family":
			curTheory = ""
			m := sigRe.FindStringSubmatch(rest)
			if m == nil {
				return fail(i, "bad signature: %s", line)
			}
			cur = &Contract{Pkg: pkgPath, Trusted: word == "trusted", Invs: map[int][]*SExpr{}, File: path, Line: lineNos[i], At: map[string][]AtClause{}, atUsed: map[string]bool{}}
			cur.Params = splitNames(m[2])
			cur.Results = splitNames(m[3])
			cur.Props = splitNames(m[4])
			if word == "family" {
				// family <kind> [props]: contract of every generated function classified as <kind> (family.go)
				cur.Family = regexp.MustCompile(".*")
				cur.Key = "family:" + m[1]
				for _, kv := range strings.Fields(m[5]) {
					if strings.HasPrefix(kv, "kind=") {
						cur.FamKind = kv[5:]
					}
				}
				cs.Families = append(cs.Families, cur)
				continue
			}
			cur.Key = qualify(pkgPath, m[1])
			if cur.Trusted {
				// a trusted declaration is what the functions of ITS package assume about the callee: it is looked up
				// by (declaring package, callee) first, so that the same callee may be trusted with different clauses in
				// different packages without one declaration silently shadowing the other
				pk := pkgPath + "|" + cur.Key
				if prev, dup := cs.TrustedIn[pk]; dup {
					return fail(i, "duplicate trusted declaration for %s in package %s (also line %d)", cur.Key, pkgPath, prev.Line)
				}
				cs.TrustedIn[pk] = cur
			}
			if old, dup := cs.ByKey[cur.Key]; dup {
				if old.Trusted && cur.Trusted {
					// global fallback for packages without a declaration of their own: the first in package-path order
					continue
				}
				if old.Trusted && !cur.Trusted {
					// a verified contract replaces a trusted one
					cs.ByKey[cur.Key] = cur
					continue
				}
				if !old.Trusted && cur.Trusted {
					delete(cs.TrustedIn, pkgPath+"|"+cur.Key) // the verified contract of the function is what callers use
					cur = &Contract{Invs: map[int][]*SExpr{}, At: map[string][]AtClause{}, Trusted: true, Key: "dup:" + cur.Key}
					continue
				}
				return fail(i, "duplicate contract for %s (also %s:%d)", cur.Key, old.File, old.Line)
			}
			cs.ByKey[cur.Key] = cur
			cs.Order = append(cs.Order, cur.Key)
		case "smt":
			if curTheory != "" {
				cs.Theories[curTheory] = append(cs.Theories[curTheory], rest)
			} else if cur != nil {
				cur.RawSMT = append(cur.RawSMT, rest)
			} else {
				return fail(i, "smt outside theory/func")
			}
		default:
			if cur == nil {
				return fail(i, "clause outside func block: %s", line)
			}
			switch word {
			case "requires", "ensures":
				only := ""
				if strings.HasPrefix(rest, "@") {
					only, rest, _ = strings.Cut(rest[1:], " ")
					rest = strings.TrimSpace(rest)
				}
				x, err := parse(rest)
				if err != nil {
					return err
				}
				if word == "requires" {
					cur.Requires = append(cur.Requires, x)
				} else {
					cur.Ensures = append(cur.Ensures, x)
					cur.EnsSrc = append(cur.EnsSrc, rest)
					cur.EnsProp = append(cur.EnsProp, only)
				}
			case "assumes":
				// assumes E: a postcondition handed to the callers but NOT checked against the body (a fact about
				// trusted library calls inside it, e.g. "this is the SHA-256 of the argument"): a listed assumption
				x, err := parse(rest)
				if err != nil {
					return err
				}
				cur.Ensures = append(cur.Ensures, x)
				cur.EnsSrc = append(cur.EnsSrc, rest)
				cur.EnsProp = append(cur.EnsProp, "ASSUMED")
				cs.Assumes = append(cs.Assumes, fmt.Sprintf("%s: assumes %s", cur.Key, rest))
			case "onexit":
				only := ""
				if strings.HasPrefix(rest, "@") {
					only, rest, _ = strings.Cut(rest[1:], " ")
					rest = strings.TrimSpace(rest)
				}
				x, err := parse(rest)
				if err != nil {
					return err
				}
				cur.OnExit = append(cur.OnExit, x)
				cur.OnExitSrc = append(cur.OnExitSrc, rest)
				cur.OnExitProp = append(cur.OnExitProp, only)
			case "goensures":
				only := ""
				if strings.HasPrefix(rest, "@") {
					only, rest, _ = strings.Cut(rest[1:], " ")
					rest = strings.TrimSpace(rest)
				}
				x, err := parse(rest)
				if err != nil {
					return err
				}
				cur.GoEnsures = append(cur.GoEnsures, x)
				cur.GoEnsProp = append(cur.GoEnsProp, only)
			case "noescape":
				cur.NoEscape = true
			case "nopanic":
				cur.NoPanic = true
			case "pure":
				cur.Pure = true
			case "modifies":
				cur.HasFrame = true
				for _, f := range strings.FieldsFunc(rest, func(r rune) bool { return r == ',' || r == ' ' }) {
					if f != "nothing" {
						cur.Modifies = append(cur.Modifies, f)
					}
				}
			case "inloop":
				body := strings.TrimSpace(strings.TrimPrefix(rest, "ensures"))
				x, err := parse(body)
				if err != nil {
					return err
				}
				cur.InLoop = append(cur.InLoop, x)
				cur.InLoopSrc = append(cur.InLoopSrc, body)
			case "userdata":
				if cur.UserData == nil {
					cur.UserData = map[string]bool{}
				}
				for _, n := range strings.Fields(rest) {
					cur.UserData[n] = true
				}
				cs.Assumes = append(cs.Assumes, fmt.Sprintf("%s: userdata %s (pointers nested inside these user-provided values are assumed non-nil)", cur.Key, rest))
			case "assumenopanic":
				// callers may rely on the function not panicking although this is not proved here
				cur.AssumeNoPanic = true
				cs.Assumes = append(cs.Assumes, fmt.Sprintf("%s: assumed not to panic (%s)", cur.Key, rest))
			case "runs":
				param, with, _ := strings.Cut(rest, " with ")
				rc := RunsClause{Param: strings.TrimSpace(param)}
				for _, as := range strings.Split(with, ",") {
					as = strings.TrimSpace(as)
					if as == "" {
						continue
					}
					n, ex, _ := strings.Cut(as, "=")
					x, err := parse(strings.TrimSpace(ex))
					if err != nil {
						return err
					}
					rc.Ghosts = append(rc.Ghosts, AtClause{Kind: "ghost", Name: strings.TrimSpace(n), Expr: x})
				}
				cur.Runs = append(cur.Runs, rc)
			case "safe":
				cur.Safe = true
			case "stable":
				cur.Stable = append(cur.Stable, strings.Fields(rest)...)
				cs.Assumes = append(cs.Assumes, fmt.Sprintf("%s: stable %s (no callee writes these fields)", cur.Key, rest))
			case "gosafe":
				cur.GoSafe = true
			case "uses":
				cur.Uses = append(cur.Uses, strings.Fields(rest)...)
			case "replay":
				if t, f, ok := strings.Cut(rest, " for "); ok {
					cur.ReplayFor = append(cur.ReplayFor, ReplaySel{Tmpl: strings.TrimSpace(t), For: strings.TrimSpace(f)})
				} else {
					cur.Replay = rest
				}
			case "params":
				cur.Params = splitNames(rest)
			case "results":
				cur.Results = splitNames(rest)
			case "ghost":
				n, ex, _ := strings.Cut(rest, "=")
				x, err := parse(strings.TrimSpace(ex))
				if err != nil {
					return err
				}
				cur.Ghosts = append(cur.Ghosts, AtClause{Kind: "ghost", Name: strings.TrimSpace(n), Expr: x})
			case "at", "at!", "at?":
				a := strings.Index(rest, "`")
				// closing backquote: the last backquote followed by optional #k and a keyword
				b := -1
				for _, kw := range []string{" requires ", " ghost ", " assume ", " assumenopanic "} {
					if k := strings.LastIndex(rest, "`"+kw); k > b {
						b = k
					}
					if k := regexp.MustCompile("`#[0-9]+"+kw).FindAllStringIndex(rest, -1); len(k) > 0 && k[len(k)-1][0] > b {
						b = k[len(k)-1][0]
					}
				}
				if a < 0 || b <= a {
					return fail(i, "bad at clause: %s", line)
				}
				text := rest[a+1 : b]
				tail := strings.TrimSpace(rest[b+1:])
				if strings.HasPrefix(tail, "#") {
					num, t2, _ := strings.Cut(tail, " ")
					text += num
					tail = strings.TrimSpace(t2)
				}
				if word == "at?" { // optional anchor: the clause applies where the call exists, its absence is no failure
					if cur.OptAt == nil {
						cur.OptAt = map[string]bool{}
					}
					cur.OptAt[text] = true
				}
				if word == "at!" {
					if cur.MustAt == nil {
						cur.MustAt = map[string]bool{}
					}
					cur.MustAt[text] = true
				}
				kw, body, _ := strings.Cut(tail, " ")
				switch kw {
				case "requires", "assume":
					only := ""
					if strings.HasPrefix(body, "@") {
						only, body, _ = strings.Cut(body[1:], " ")
						body = strings.TrimSpace(body)
					}
					x, err := parse(body)
					if err != nil {
						return err
					}
					cur.At[text] = append(cur.At[text], AtClause{Kind: kw, Expr: x, Src: body, Prop: only})
					if kw == "assume" {
						cs.Assumes = append(cs.Assumes, fmt.Sprintf("%s: at `%s` assume %s", cur.Key, text, body))
					}
				case "ghost":
					n, ex, _ := strings.Cut(body, "=")
					x, err := parse(strings.TrimSpace(ex))
					if err != nil {
						return err
					}
					cur.At[text] = append(cur.At[text], AtClause{Kind: "ghost", Name: strings.TrimSpace(n), Expr: x, Src: body})
				case "assumenopanic":
					// the call is assumed not to panic at this site (user code behind an interface on an error path):
					// a listed assumption, reported with the evidence
					if strings.TrimSpace(body) == "" {
						return fail(i, "assumenopanic needs a reason")
					}
					cur.At[text] = append(cur.At[text], AtClause{Kind: "assumenopanic", Src: body})
					cs.Assumes = append(cs.Assumes, fmt.Sprintf("%s: at `%s` assumenopanic %s", cur.Key, text, body))
				default:
					return fail(i, "bad at clause keyword %q", kw)
				}
			case "callsite":
				callee, cl, ok := strings.Cut(rest, ":")
				cl = strings.TrimSpace(cl)
				if !ok || !strings.HasPrefix(cl, "requires ") {
					return fail(i, "bad callsite clause")
				}
				x, err := parse(strings.TrimPrefix(cl, "requires "))
				if err != nil {
					return err
				}
				cur.Callsites = append(cur.Callsites, CallsiteClause{Callee: strings.TrimSpace(callee), Expr: x, Src: cl})
			case "loop":
				parts := strings.SplitN(rest, ":", 2)
				n, err := strconv.Atoi(strings.TrimSpace(parts[0]))
				if strings.TrimSpace(parts[0]) == "*" { // every loop in whose scope the invariant's variables are (stored under 0)
					n, err = 0, nil
				}
				if err != nil || len(parts) != 2 {
					return fail(i, "bad loop clause")
				}
				body := strings.TrimSpace(parts[1])
				isStep := strings.HasPrefix(body, "step ")
				body = strings.TrimSpace(strings.TrimPrefix(strings.TrimPrefix(body, "step"), "invariant"))
				x, err := parse(body)
				if err != nil {
					return err
				}
				if isStep {
					if cur.Steps == nil {
						cur.Steps = map[int][]*SExpr{}
					}
					cur.Steps[n] = append(cur.Steps[n], x)
				} else {
					cur.Invs[n] = append(cur.Invs[n], x)
				}
			default:
				return fail(i, "unknown clause: %s", line)
			}
		}
	}
	return nil
}
