package main

import (
	"fmt"
	"go/ast"
	"go/token"
	"go/types"
	"strconv"
	"strings"
)

// ParamSym records the SMT symbols standing for an entry value (for model extraction / replay).
type ParamSym struct {
	Name string
	Sort string
	Term string
	Go   string
	Sub  []ParamSym // slice: arr, off, len ; struct: fields
}

func paramSym(name string, v *Val) ParamSym {
	p := ParamSym{Name: name, Sort: v.Sort, Term: v.T}
	if v.Go != nil {
		p.Go = types.TypeString(v.Go, nil)
	}
	for i, el := range v.Elems {
		n := strconv.Itoa(i)
		if i < len(v.Names) {
			n = v.Names[i]
		}
		p.Sub = append(p.Sub, paramSym(n, el))
	}
	return p
}

func (e *Eng) runDeferred(st *State, d deferEntry) *State {
	if d.guard != "" {
		// conditional defer: run it on the paths where it was registered, skip it on the others
		run := st.clone()
		run.path = e.define("p", "Bool", and(st.path, d.guard))
		skip := st.clone()
		skip.path = e.define("p", "Bool", and(st.path, not(d.guard)))
		d2 := d
		d2.guard = ""
		out := e.runDeferred(run, d2)
		return e.merge([]*State{out, skip})
	}
	fl, ok := ast.Unparen(d.call.Fun).(*ast.FuncLit)
	if !ok {
		// plain deferred call: evaluate as a call now
		e.evalCall(st, d.call)
		if st.dead {
			return nil
		}
		return st
	}
	i := 0
	for _, f := range fl.Type.Params.List {
		for _, n := range f.Names {
			st.vars[e.info.Defs[n]] = d.args[i]
			i++
		}
	}
	saved := e.exits
	savedRes := e.results
	e.exits = nil
	e.results = nil
	end := e.execBlock(st, fl.Body.List)
	outs := []*State{end}
	var keep []Exit
	for _, x := range e.exits {
		if x.Kind == ExitReturn {
			outs = append(outs, x.St)
		} else {
			keep = append(keep, x)
		}
	}
	e.exits = append(saved, keep...)
	e.results = savedRes
	return e.merge(outs)
}

// execClosure runs the body of a function literal on st (owned by the caller) as if called with args.
// It returns the merged normal-exit state (nil if none) and the result values. The closure's own deferred calls
// are run on each of its exits (normal and panicking); panics that leave the closure are appended to e.exits.
func (e *Eng) execClosure(st *State, fl *ast.FuncLit, args []*Val) (*State, []*Val) {
	if e.inlining == nil {
		e.inlining = map[*ast.FuncLit]bool{}
	}
	if e.inlining[fl] {
		e.gap("recursive closure call abstracted")
		e.havocHeap(st)
		return st, nil
	}
	e.inlining[fl] = true
	defer delete(e.inlining, fl)
	base := len(st.defers)
	i := 0
	for _, f := range fl.Type.Params.List {
		for _, n := range f.Names {
			if i < len(args) {
				st.vars[e.info.Defs[n]] = e.coerce(args[i], e.info.Defs[n].Type())
			}
			i++
		}
	}
	var results []types.Object
	if fl.Type.Results != nil {
		k := 0
		for _, f := range fl.Type.Results.List {
			if len(f.Names) == 0 {
				results = append(results, types.NewVar(token.NoPos, nil, fmt.Sprintf("cres%d", k), e.info.TypeOf(f.Type)))
				k++
				continue
			}
			for _, n := range f.Names {
				obj := e.info.Defs[n].(*types.Var)
				st.vars[obj] = e.zeroVal(obj.Type())
				results = append(results, obj)
				k++
			}
		}
	}
	savedExits, savedRes := e.exits, e.results
	e.exits, e.results = nil, results
	end := e.execBlock(st, fl.Body.List)
	inner := e.exits
	if end != nil {
		var vals []*Val
		for _, r := range results {
			vals = append(vals, end.vars[r])
		}
		inner = append(inner, Exit{Kind: ExitReturn, St: end, Vals: vals, Pos: fl.Body.Rbrace})
	}
	e.exits = nil
	var normal []*State
	var normalVals [][]*Val
	var escaping []Exit
	for idx := range inner {
		x := inner[idx]
		if x.St == nil {
			continue
		}
		if x.Kind != ExitReturn && x.Kind != ExitPanic {
			escaping = append(escaping, x) // break/continue cannot cross a function boundary; keep for diagnosis
			continue
		}
		if x.Kind == ExitReturn {
			for ri, r := range results {
				if ri < len(x.Vals) && x.Vals[ri] != nil {
					x.St.vars[r] = x.Vals[ri]
				}
			}
		}
		for d := len(x.St.defers) - 1; d >= base && x.St != nil; d-- {
			x.St = e.runDeferred(x.St, x.St.defers[d])
		}
		if x.St == nil {
			continue
		}
		if len(x.St.defers) > base {
			x.St.defers = x.St.defers[:base]
		}
		if x.Kind == ExitPanic && x.St.panicking {
			escaping = append(escaping, x)
			continue
		}
		var vals []*Val
		for _, r := range results {
			v := x.St.vars[r]
			if v == nil {
				v = e.zeroVal(r.Type())
			}
			vals = append(vals, v)
		}
		normal = append(normal, x.St)
		normalVals = append(normalVals, vals)
	}
	// panics raised inside the closure's deferred functions
	escaping = append(escaping, e.exits...)
	e.exits = append(savedExits, escaping...)
	e.results = savedRes
	if len(normal) == 0 {
		return nil, nil
	}
	if len(normal) == 1 {
		return normal[0], normalVals[0]
	}
	var paths []string
	for _, s := range normal {
		paths = append(paths, s.path)
	}
	var outVals []*Val
	for ri := range results {
		var col []*Val
		for _, vs := range normalVals {
			col = append(col, vs[ri])
		}
		outVals = append(outVals, e.mergeVals(paths, col))
	}
	return e.merge(normal), outVals
}

// assignedIn lists the variables declared outside fl that fl assigns (they become unknown to the spawner).
func (e *Eng) assignedIn(fl *ast.FuncLit) map[types.Object]bool {
	vars, _ := e.assignedVars(e.info, fl.Body)
	out := map[types.Object]bool{}
	for o := range vars {
		if o != nil && (o.Pos() < fl.Pos() || o.Pos() >= fl.End()) {
			out[o] = true
		}
	}
	return out
}

func (e *Eng) includeTheories(names []string) {
	for _, n := range names {
		if e.theoriesIn[n] {
			continue
		}
		if e.theoriesIn == nil {
			e.theoriesIn = map[string]bool{}
		}
		e.theoriesIn[n] = true
		lines, ok := e.contracts.Theories[n]
		if !ok {
			panic("unknown theory " + n)
		}
		for _, l := range lines {
			if strings.Contains(l, "runeat") || strings.Contains(l, "runew") || strings.Contains(l, "runeok") {
				e.ensureRunes()
			}
			if strings.Contains(l, "substr") {
				e.ensureSubstr()
			}
		}
		e.decls = append(e.decls, lines...)
	}
}

func (e *Eng) verifyFunc(fobj *types.Func) {
	sig := fobj.Type().(*types.Signature)
	if e.lit != nil {
		sig = e.info.TypeOf(e.lit).(*types.Signature)
	}
	st := &State{vars: map[types.Object]*Val{}, path: "true", heap: map[string]string{}, base: []baseAlt{{cond: "true", epoch: "0"}}, counters: map[string]string{}}
	env := map[string]*Val{}
	bind := func(v *types.Var) {
		if v == nil || v.Name() == "" || v.Name() == "_" {
			return
		}
		val := e.freshVal(v.Name(), v.Type())
		st.vars[v] = val
		env[v.Name()] = val
		e.entrySyms = append(e.entrySyms, paramSym(v.Name(), val))
	}
	if e.lit != nil {
		// closure unit: every variable captured from the enclosing function is an unconstrained entry value
		seen := map[types.Object]bool{}
		ast.Inspect(e.lit, func(n ast.Node) bool {
			id, ok := n.(*ast.Ident)
			if !ok {
				return true
			}
			obj, ok := e.info.Uses[id].(*types.Var)
			if !ok || seen[obj] || obj.IsField() {
				return true
			}
			if obj.Pos() >= e.lit.Pos() && obj.Pos() < e.lit.End() {
				return true
			}
			if obj.Parent() == e.pkg.Types.Scope() || obj.Pkg() != e.pkg.Types {
				return true
			}
			seen[obj] = true
			bind(obj)
			return true
		})
	} else if sig.Recv() != nil {
		// receiver object from the decl (Defs), not sig
		if e.fn.Recv != nil && len(e.fn.Recv.List) > 0 && len(e.fn.Recv.List[0].Names) > 0 {
			obj := e.info.Defs[e.fn.Recv.List[0].Names[0]].(*types.Var)
			bind(obj)
		}
	}
	for _, f := range e.fnType().Params.List {
		for _, n := range f.Names {
			if obj, ok := e.info.Defs[n].(*types.Var); ok {
				bind(obj)
			}
		}
	}
	// results
	if e.fnType().Results != nil {
		i := 0
		for _, f := range e.fnType().Results.List {
			if len(f.Names) == 0 {
				obj := types.NewVar(token.NoPos, nil, fmt.Sprintf("res%d", i), e.info.TypeOf(f.Type))
				e.results = append(e.results, obj)
				i++
				continue
			}
			for _, n := range f.Names {
				obj := e.info.Defs[n].(*types.Var)
				st.vars[obj] = e.zeroVal(obj.Type())
				e.results = append(e.results, obj)
				i++
			}
		}
	}
	st.vars[e.recObj()] = scalar("false", "Bool", types.Typ[types.Bool])
	e.oldEnv = env
	e.indexCalls()
	e.includeTheories(e.con.Uses)
	if len(e.con.RawSMT) > 0 {
		e.ensureRunes()
		e.ensureSubstr()
	}
	e.decls = append(e.decls, e.con.RawSMT...)
	e.ghosts = map[string]types.Object{}
	for _, g := range e.con.Ghosts {
		init := e.evalSpec(st, g.Expr, env, env)
		var gt types.Type = types.Typ[types.Int]
		switch init.Sort {
		case "Bool":
			gt = types.Typ[types.Bool]
		case "Str":
			gt = types.Typ[types.String]
		case "Iface":
			gt = types.NewInterfaceType(nil, nil)
		}
		obj := types.NewVar(token.NoPos, nil, g.Name, gt)
		e.ghosts[g.Name] = obj
		st.vars[obj] = init
	}
	for _, r := range e.con.Requires {
		g := e.evalSpec(st, r, env, env)
		e.decls = append(e.decls, fmt.Sprintf("(assert %s)", g.T))
	}
	e.declsAtEntry = append([]string{}, e.decls...)
	e.oldState = st.clone()
	end := e.execBlock(st, e.fnBody().List)
	if end != nil {
		var vals []*Val
		for _, r := range e.results {
			vals = append(vals, end.vars[r])
		}
		e.exits = append(e.exits, Exit{Kind: ExitReturn, St: end, Vals: vals, Pos: e.fnBody().Rbrace})
	}
	// run deferred calls on every exit
	exits := e.exits
	e.exits = nil
	for i := range exits {
		x := &exits[i]
		if x.Kind == ExitReturn {
			for ri, r := range e.results {
				if ri < len(x.Vals) && x.Vals[ri] != nil {
					x.St.vars[r] = x.Vals[ri]
				}
			}
		}
		for d := len(x.St.defers) - 1; d >= 0 && x.St != nil; d-- {
			x.St = e.runDeferred(x.St, x.St.defers[d])
		}
		if x.St == nil {
			continue
		}
		if x.Kind == ExitPanic && !x.St.panicking {
			x.Kind = ExitReturn // recovered
		}
		if x.Kind == ExitReturn {
			x.Vals = nil
			for _, r := range e.results {
				x.Vals = append(x.Vals, x.St.vars[r])
			}
		}
	}
	// panics raised inside deferred closures
	exits = append(exits, e.exits...)
	e.exits = exits
	nret := 0
	nexit := 0
	for _, x := range e.exits {
		if x.St == nil {
			continue
		}
		if (x.Kind == ExitPanic || x.Kind == ExitReturn) && len(e.con.OnExit) > 0 {
			nexit++
			xenv := map[string]*Val{}
			for k, v := range env {
				xenv[k] = v
			}
			for n, o := range e.ghosts {
				xenv[n] = x.St.vars[o]
			}
			xenv["panicked"] = scalar(fmt.Sprint(x.Kind == ExitPanic), "Bool", nil)
			if pv, ok := x.St.vars[e.recObj()]; ok && x.Kind == ExitReturn {
				xenv["panicked"] = pv
			}
			kind := "return"
			if x.Kind == ExitPanic {
				kind = "panic"
			}
			for qi, q := range e.con.OnExit {
				if e.con.OnExitProp[qi] != "" && e.con.OnExitProp[qi] != e.propID {
					continue
				}
				g := e.evalSpec(x.St, q, xenv, env)
				at := fmt.Sprintf("#%d@%s%d", qi+1, kind, nexit)
				if x.Kind == ExitPanic && x.Label != "" {
					at += "(" + x.Label + ")"
				}
				e.oblige(x.St, "onexit", at, g.T, x.Pos)
				e.obls[len(e.obls)-1].Src = e.con.OnExitSrc[qi]
			}
		}
		if x.Kind == ExitPanic {
			if e.con.NoEscape {
				e.oblige(x.St, "noescape", "panic escapes", "false", x.Pos)
			}
			continue
		}
		if x.Kind != ExitReturn {
			continue
		}
		nret++
		renv := map[string]*Val{}
		for k, v := range env {
			renv[k] = v
		}
		for i, r := range e.results {
			if i < len(x.Vals) && x.Vals[i] != nil {
				renv[r.Name()] = x.Vals[i]
				renv[fmt.Sprintf("res%d", i)] = x.Vals[i]
			}
		}
		for n, o := range e.ghosts {
			renv[n] = x.St.vars[o]
		}
		if pv, ok := x.St.vars[e.recObj()]; ok {
			renv["panicked"] = pv
		} else {
			renv["panicked"] = scalar("false", "Bool", nil)
		}
		for qi, q := range e.con.Ensures {
			if qi < len(e.con.EnsProp) && e.con.EnsProp[qi] != "" && e.con.EnsProp[qi] != e.propID {
				continue
			}
			g := e.evalSpec(x.St, q, renv, env)
			e.oblige(x.St, "ensures", fmt.Sprintf("#%d@return%d", qi+1, nret), g.T, x.Pos)
			e.obls[len(e.obls)-1].Src = e.con.EnsSrc[qi]
		}
	}
	_ = sig
}

func (e *Eng) fnType() *ast.FuncType {
	if e.lit != nil {
		return e.lit.Type
	}
	return e.fn.Type
}

func (e *Eng) fnBody() *ast.BlockStmt {
	if e.lit != nil {
		return e.lit.Body
	}
	return e.fn.Body
}

// nthFuncLit returns the n-th (1-based, source order) function literal inside the declaration.
func nthFuncLit(fd *ast.FuncDecl, n int) *ast.FuncLit {
	var res *ast.FuncLit
	k := 0
	ast.Inspect(fd.Body, func(x ast.Node) bool {
		if fl, ok := x.(*ast.FuncLit); ok {
			k++
			if k == n {
				res = fl
			}
		}
		return res == nil
	})
	return res
}
