package main

import (
	"bytes"
	"context"
	"fmt"
	"os"
	"os/exec"
	"path/filepath"
	"strings"
	"time"
)

const preBase = `
(set-logic ALL)
(define-fun MAXI64 () Int 9223372036854775807)
(define-fun MINI64 () Int (- 9223372036854775808))
(define-fun wrap64 ((x Int)) Int (ite (> x MAXI64) (- x 18446744073709551616) (ite (< x MINI64) (+ x 18446744073709551616) x)))
(define-fun wrapu64 ((x Int)) Int (ite (> x 18446744073709551615) (- x 18446744073709551616) (ite (< x 0) (+ x 18446744073709551616) x)))
(define-fun wrap32 ((x Int)) Int (ite (> x 2147483647) (- x 4294967296) (ite (< x (- 2147483648)) (+ x 4294967296) x)))
(define-fun imin ((a Int) (b Int)) Int (ite (<= a b) a b))
(define-fun imax ((a Int) (b Int)) Int (ite (>= a b) a b))
`
const preStr = `
(declare-sort Str 0)
(declare-fun slen (Str) Int)
(declare-fun sbyte (Str Int) Int)
(declare-fun numval (Str) Int)
`
const preIface = `
(declare-sort F64 0)
(declare-fun i2f (Int) F64)
(declare-datatypes ((Iface 0)) (((inil) (mkint (tgi Int) (iint Int)) (mkstr (tgs Int) (istr Str)) (mkref (tgr Int) (iref Int)) (mkbool (tgb Int) (ibool Bool)) (mkslc (tgl Int) (lref Int) (isoff Int) (islen Int)) (mkflt (tgf Int) (iflt F64)) (mkopq (tgo Int) (oid Int)))))
(define-fun itag ((i Iface)) Int (ite ((_ is inil) i) 0 (ite ((_ is mkint) i) (tgi i) (ite ((_ is mkstr) i) (tgs i) (ite ((_ is mkref) i) (tgr i) (ite ((_ is mkbool) i) (tgb i) (ite ((_ is mkslc) i) (tgl i) (ite ((_ is mkflt) i) (tgf i) (tgo i)))))))))
(define-fun iwf ((i Iface)) Bool (or ((_ is inil) i) (and (> (itag i) 0)
  (= ((_ is mkint) i) (= (mod (itag i) 10) 1))
  (= ((_ is mkstr) i) (= (mod (itag i) 10) 2))
  (= ((_ is mkref) i) (= (mod (itag i) 10) 3))
  (= ((_ is mkbool) i) (= (mod (itag i) 10) 4))
  (= ((_ is mkslc) i) (= (mod (itag i) 10) 5))
  (= ((_ is mkflt) i) (= (mod (itag i) 10) 6))
  (=> ((_ is mkslc) i) (and (>= (isoff i) 0) (>= (islen i) 0) (>= (lref i) 0) (=> (= (lref i) 0) (= (islen i) 0))))
  (=> ((_ is mkref) i) (>= (iref i) 0)))))
`

func preambleFor(body string) string {
	p := preBase
	needIface := strings.Contains(body, "Iface") || strings.Contains(body, "itag") || strings.Contains(body, "inil")
	needStr := needIface || strings.Contains(body, "Str") || strings.Contains(body, "slen") || strings.Contains(body, "sbyte")
	if needStr {
		p += preStr
	}
	if needIface {
		p += preIface
	}
	return p
}


type SolveResult struct {
	Status  string // unsat, sat, unknown
	Backend string
	Ms      int64
	Model   string
}

var solvers = [][]string{
	{"z3-new", "-smt2", "-T:%d"},
	{"z3", "-smt2", "-T:%d"},
	{"cvc5", "--lang=smt2", "--produce-models", "--tlimit=%d000"},
}

func solve(dir, name, script string, timeoutS int) SolveResult {
	path := filepath.Join(dir, name+".smt2")
	os.WriteFile(path, []byte(script), 0o644)
	ctx, cancel := context.WithTimeout(context.Background(), time.Duration(timeoutS+2)*time.Second)
	defer cancel()
	ch := make(chan SolveResult, len(solvers))
	run := func(s []string) {
		args := []string{}
		for _, a := range s[1:] {
			if strings.Contains(a, "%d") {
				a = fmt.Sprintf(a, timeoutS)
			}
			args = append(args, a)
		}
		args = append(args, path)
		t0 := time.Now()
		cmd := exec.CommandContext(ctx, s[0], args...)
		var out bytes.Buffer
		cmd.Stdout = &out
		cmd.Stderr = &out
		cmd.Run()
		first := strings.TrimSpace(strings.SplitN(out.String(), "\n", 2)[0])
		st := "unknown"
		if first == "unsat" || first == "sat" {
			st = first
		}
		if strings.HasPrefix(first, "(error") && !strings.Contains(first, "model is not available") {
			st = "error" // malformed script: an engine defect, never a verdict
		}
		ch <- SolveResult{Status: st, Backend: s[0], Ms: time.Since(t0).Milliseconds(), Model: out.String()}
	}
	// portfolio: z3 5.1 first; the other back ends join the race if it has not answered quickly
	go run(solvers[0])
	started, done := 1, 0
	best := SolveResult{Status: "unknown"}
	timer := time.NewTimer(1200 * time.Millisecond)
	defer timer.Stop()
	for done < started {
		select {
		case res := <-ch:
			done++
			if res.Status == "unsat" || res.Status == "sat" {
				return res
			}
			if best.Status != "error" {
				best = res
			}
			if started == 1 {
				for _, s := range solvers[1:] {
					go run(s)
					started++
				}
			}
		case <-timer.C:
			if started == 1 {
				for _, s := range solvers[1:] {
					go run(s)
					started++
				}
			}
		}
	}
	return best
}

// solveAgree (thorough tier) runs every back end on the script and requires their definite answers to agree.
func solveAgree(dir, name, script string, timeoutS int, skipSlow bool) SolveResult {
	path := filepath.Join(dir, name+".smt2")
	os.WriteFile(path, []byte(script), 0o644)
	ctx, cancel := context.WithTimeout(context.Background(), time.Duration(timeoutS+2)*time.Second)
	defer cancel()
	ch := make(chan SolveResult, len(solvers))
	use := solvers
	if skipSlow {
		// z3 4.8.12 needs ~2 s per script: on very large obligation sets it is run on a sample only
		use = [][]string{solvers[0], solvers[2]}
	}
	for _, s := range use {
		go func(s []string) {
			args := []string{}
			for _, a := range s[1:] {
				if strings.Contains(a, "%d") {
					a = fmt.Sprintf(a, timeoutS)
				}
				args = append(args, a)
			}
			args = append(args, path)
			t0 := time.Now()
			cmd := exec.CommandContext(ctx, s[0], args...)
			var out bytes.Buffer
			cmd.Stdout = &out
			cmd.Stderr = &out
			cmd.Run()
			first := strings.TrimSpace(strings.SplitN(out.String(), "\n", 2)[0])
			st := "unknown"
			if first == "unsat" || first == "sat" {
				st = first
			}
			ch <- SolveResult{Status: st, Backend: s[0], Ms: time.Since(t0).Milliseconds(), Model: out.String()}
		}(s)
	}
	var results []SolveResult
	for range use {
		results = append(results, <-ch)
	}
	best := SolveResult{Status: "unknown"}
	var agree []string
	for _, r := range results {
		if r.Status == "sat" || r.Status == "unsat" {
			if best.Status == "unknown" {
				best = r
			} else if best.Status != r.Status {
				return SolveResult{Status: "error", Backend: best.Backend + "/" + r.Backend, Ms: r.Ms,
					Model: fmt.Sprintf("BACK ENDS DISAGREE: %s says %s, %s says %s", best.Backend, best.Status, r.Backend, r.Status)}
			}
			agree = append(agree, r.Backend)
		} else if best.Status == "unknown" && best.Model == "" {
			best = r
		}
	}
	if len(agree) > 0 {
		best.Backend = strings.Join(agree, "+")
	}
	return best
}
