package main

import (
	"go/ast"
	"go/token"
	"go/types"
	"sort"
	"strings"
)

// locks.go: lock discipline of gqlgen's own sync.Mutex / sync.RWMutex fields.
//
// Go's mutexes are not reentrant: a function that holds c.mu and calls - directly or through helpers - something
// that locks c.mu again never returns (and everything else that needs the lock waits with it). The engine keeps, per
// symbolic state, which mutexes are held (a Bool term per mutex, keyed by the address term of the object it belongs
// to plus the field path, so that aliases and inlined helpers agree), and checks two obligations in every function
// under contract:
//
//   deadlock:lock-reentry <m>                 m.Lock() / m.RLock() while m is held
//   deadlock:<callee> locks <m>, held here    a call of one of gqlgen's own methods on the same receiver whose
//                                             lock summary (below) says it may acquire m
//
// Lock summaries are computed syntactically over all loaded packages: a method with receiver r "may acquire" the
// receiver-relative path p when its body - including deferred closures and function literals, excluding go
// statements - contains r.p.Lock()/RLock(), or calls another method on r that may. No annotation is involved, so a
// new helper is covered the moment it exists. The summary over-approximates (a lock taken on some paths only counts
// as taken); an obligation of this kind that fails although the path is infeasible would be a false alarm - none
// occurs on the unchanged tree.

type lockSums map[string][]string // function key -> receiver-relative mutex paths it may acquire on the calling goroutine

func isMutexType(t types.Type) bool {
	if t == nil {
		return false
	}
	if p, ok := t.Underlying().(*types.Pointer); ok {
		t = p.Elem()
	}
	n, ok := types.Unalias(t).(*types.Named)
	if !ok || n.Obj().Pkg() == nil || n.Obj().Pkg().Path() != "sync" {
		return false
	}
	return n.Obj().Name() == "Mutex" || n.Obj().Name() == "RWMutex"
}

// selPath splits x into its root identifier and the selector path below it (c.a.mu -> c, "a.mu").
func selPath(x ast.Expr) (*ast.Ident, string) {
	var parts []string
	for {
		switch v := ast.Unparen(x).(type) {
		case *ast.SelectorExpr:
			parts = append([]string{v.Sel.Name}, parts...)
			x = v.X
		case *ast.Ident:
			return v, strings.Join(parts, ".")
		case *ast.StarExpr:
			x = v.X
		default:
			return nil, ""
		}
	}
}

func (ix *funcIndex) lockSummaries() lockSums {
	if ix.locks != nil {
		return ix.locks
	}
	direct := map[string]map[string]bool{}
	edges := map[string][]string{}
	for key, ref := range ix.byKey {
		fd := ref.fd
		if fd.Body == nil || fd.Recv == nil || len(fd.Recv.List) != 1 || len(fd.Recv.List[0].Names) != 1 {
			continue
		}
		if !strings.HasPrefix(ref.pkg.PkgPath, repoModule) && !isProbePkg(ref.pkg.PkgPath) {
			continue
		}
		info := ref.pkg.TypesInfo
		robj := info.Defs[fd.Recv.List[0].Names[0]]
		if robj == nil {
			continue
		}
		ast.Inspect(fd.Body, func(n ast.Node) bool {
			if _, isGo := n.(*ast.GoStmt); isGo {
				return false
			}
			call, ok := n.(*ast.CallExpr)
			if !ok {
				return true
			}
			sel, ok := ast.Unparen(call.Fun).(*ast.SelectorExpr)
			if !ok {
				return true
			}
			if (sel.Sel.Name == "Lock" || sel.Sel.Name == "RLock") && isMutexType(info.TypeOf(sel.X)) {
				if root, path := selPath(sel.X); root != nil && path != "" && info.ObjectOf(root) == robj {
					if direct[key] == nil {
						direct[key] = map[string]bool{}
					}
					direct[key][path] = true
				}
				return true
			}
			if id, ok := ast.Unparen(sel.X).(*ast.Ident); ok && info.ObjectOf(id) == robj {
				if fn, ok := info.ObjectOf(sel.Sel).(*types.Func); ok {
					edges[key] = append(edges[key], fn.FullName())
				}
			}
			return true
		})
	}
	for changed := true; changed; {
		changed = false
		for from, tos := range edges {
			for _, to := range tos {
				for p := range direct[to] {
					if direct[from] == nil {
						direct[from] = map[string]bool{}
					}
					if !direct[from][p] {
						direct[from][p] = true
						changed = true
					}
				}
			}
		}
	}
	ix.locks = lockSums{}
	for k, ps := range direct {
		for p := range ps {
			ix.locks[k] = append(ix.locks[k], p)
		}
		sort.Strings(ix.locks[k])
	}
	return ix.locks
}

// lockObj is the state variable that says whether the mutex `path` of the object `base` evaluates to is held.
func (e *Eng) lockObj(st *State, base ast.Expr, path string) types.Object {
	root, rp := selPath(base)
	if root == nil {
		return nil
	}
	if rp != "" {
		if path != "" {
			path = rp + "." + path
		} else {
			path = rp
		}
	}
	k := "src:" + root.Name
	if obj := e.info.ObjectOf(root); obj != nil {
		if v, ok := st.vars[obj]; ok && v != nil && v.Sort == "Int" && v.T != "" {
			k = "at:" + v.T
		} else if obj.Parent() == obj.Pkg().Scope() {
			k = "global:" + obj.Pkg().Path() + "." + obj.Name()
		}
	}
	k += "." + path
	if e.lockObjs == nil {
		e.lockObjs = map[string]types.Object{}
	}
	o, ok := e.lockObjs[k]
	if !ok {
		o = types.NewVar(token.NoPos, nil, "held$"+k, types.Typ[types.Bool])
		e.lockObjs[k] = o
	}
	return o
}

func (e *Eng) heldTerm(st *State, o types.Object) string {
	if v, ok := st.vars[o]; ok && v != nil {
		return v.T
	}
	return "false"
}

// lockEvent handles m.Lock/RLock/Unlock/RUnlock on one of the program's mutexes.
func (e *Eng) lockEvent(st *State, key string, recvExpr ast.Expr, call *ast.CallExpr) {
	if e.con == nil || recvExpr == nil || !isMutexType(e.info.TypeOf(recvExpr)) {
		return
	}
	var acquire bool
	switch {
	case strings.HasSuffix(key, ".Lock") || strings.HasSuffix(key, ".RLock"):
		acquire = true
	case strings.HasSuffix(key, ".Unlock") || strings.HasSuffix(key, ".RUnlock"):
	default:
		return
	}
	o := e.lockObj(st, recvExpr, "")
	if o == nil {
		return
	}
	e.lockSites++
	if acquire {
		if h := e.heldTerm(st, o); h != "false" {
			e.oblige(st, "deadlock", "lock-reentry "+e.src(recvExpr), "(not "+h+")", call.Pos())
		}
		st.vars[o] = scalar("true", "Bool", types.Typ[types.Bool])
	} else {
		st.vars[o] = scalar("false", "Bool", types.Typ[types.Bool])
	}
}

// lockCallCheck: calling a method that may lock a mutex of its receiver while that mutex is held here.
func (e *Eng) lockCallCheck(st *State, key string, recvExpr ast.Expr, call *ast.CallExpr) {
	if e.con == nil || recvExpr == nil || e.funcIndex == nil {
		return
	}
	paths := e.funcIndex.lockSummaries()[key]
	for _, p := range paths {
		o := e.lockObj(st, recvExpr, p)
		if o == nil {
			continue
		}
		e.lockSites++
		if h := e.heldTerm(st, o); h != "false" {
			e.oblige(st, "deadlock", shortKey(key)+" locks "+e.src(recvExpr)+"."+p+", held here", "(not "+h+")", call.Pos())
		}
	}
}

// mergeLocks: a mutex that only some of the merged states know about is not held in the others.
func (e *Eng) mergeLocks(n *State, live []*State, paths []string) {
	for _, o := range e.lockObjs {
		if _, done := n.vars[o]; done {
			continue
		}
		any := false
		vals := make([]*Val, len(live))
		for i, s := range live {
			if v, ok := s.vars[o]; ok {
				vals[i] = v
				any = true
			} else {
				vals[i] = scalar("false", "Bool", types.Typ[types.Bool])
			}
		}
		if any {
			n.vars[o] = e.mergeVals(paths, vals)
		}
	}
}
