package main

import (
	"encoding/json"
	"fmt"
	"go/ast"
	"go/types"
	"os"
	"path/filepath"
	"regexp"
	"sort"
	"strconv"
	"strings"
	"sync"
	"time"

	"golang.org/x/tools/go/packages"
)

const repoModule = "github.com/99designs/gqlgen"

var verifRoot = "/verif"

type CheckConfig struct {
	ID          string            `json:"id"`
	Packages    []string          `json:"packages"`
	Probes      []ProbeConfig     `json:"probes,omitempty"`
	Assumptions []string          `json:"assumptions,omitempty"`
	TrustedBase []string          `json:"trusted_base,omitempty"`
	Residual    []string          `json:"residual,omitempty"`
	Bounded     []BoundedCheck    `json:"bounded,omitempty"`
	Extra       map[string]string `json:"extra,omitempty"`
	// AlsoTags: contract blocks (of the packages this check loads) that are tagged with one of these properties are
	// verified by this check as well - the mechanisms behind neighbouring properties overlap (a pooled request object
	// serves C07 and C15, the response path C01 and C13). Clauses restricted to another property (`ensures @Cxx`)
	// and family contracts stay with their own property.
	AlsoTags []string `json:"also_tags,omitempty"`
}

type BoundedCheck struct {
	Name  string `json:"name"`
	Cmd   string `json:"cmd"`
	Bound string `json:"bound"`
}

type funcIndex struct {
	locks lockSums
	pkgs  []*packages.Package
	byKey map[string]*funcRef
}

type funcRef struct {
	pkg *packages.Package
	fd  *ast.FuncDecl
	obj *types.Func
}

func buildIndex(pkgs []*packages.Package) *funcIndex {
	ix := &funcIndex{pkgs: pkgs, byKey: map[string]*funcRef{}}
	packages.Visit(pkgs, nil, func(p *packages.Package) {
		for _, f := range p.Syntax {
			for _, d := range f.Decls {
				fd, ok := d.(*ast.FuncDecl)
				if !ok {
					continue
				}
				obj, _ := p.TypesInfo.Defs[fd.Name].(*types.Func)
				if obj != nil {
					ix.byKey[obj.FullName()] = &funcRef{p, fd, obj}
				}
			}
		}
	})
	return ix
}

func repoDir() string {
	if r := os.Getenv("VERIF_REPO"); r != "" {
		return r
	}
	return "/repo"
}

func loadPackages(dir string, patterns []string) ([]*packages.Package, error) {
	cfg := &packages.Config{
		Mode:       packages.NeedName | packages.NeedSyntax | packages.NeedTypes | packages.NeedTypesInfo | packages.NeedFiles | packages.NeedImports | packages.NeedDeps | packages.NeedModule,
		Dir:        dir,
		BuildFlags: []string{"-tags=verif", "-mod=mod"},
		Env:        append(os.Environ(), "GOFLAGS=", "GOPROXY=off"),
	}
	pkgs, err := packages.Load(cfg, patterns...)
	if err != nil {
		return nil, err
	}
	var errs []string
	packages.Visit(pkgs, nil, func(p *packages.Package) {
		if strings.HasPrefix(p.PkgPath, repoModule) || isProbePkg(p.PkgPath) {
			for _, e := range p.Errors {
				errs = append(errs, e.Error())
			}
		}
	})
	if len(errs) > 0 {
		return nil, fmt.Errorf("package load errors: %s", strings.Join(errs, "; "))
	}
	return pkgs, nil
}

func isProbePkg(path string) bool { return strings.Contains(path, "/verifprobe/") }

// loadContracts reads verif_contracts.go from every package of the repo module in the import closure.
func loadContracts(pkgs []*packages.Package, extraFiles map[string]string) (*ContractSet, error) {
	cs := newContractSet()
	seen := map[string]bool{}
	var firstErr error
	var paths []*packages.Package
	packages.Visit(pkgs, nil, func(p *packages.Package) { paths = append(paths, p) })
	sort.Slice(paths, func(i, j int) bool { return paths[i].PkgPath < paths[j].PkgPath })
	for _, p := range paths {
		if !strings.HasPrefix(p.PkgPath, repoModule) || len(p.GoFiles) == 0 {
			continue
		}
		dir := filepath.Dir(p.GoFiles[0])
		cf := filepath.Join(dir, "verif_contracts.go")
		if seen[cf] {
			continue
		}
		seen[cf] = true
		if _, err := os.Stat(cf); err != nil {
			continue
		}
		if err := cs.loadFile(cf, p.PkgPath); err != nil && firstErr == nil {
			firstErr = err
		}
	}
	for f, pkgPath := range extraFiles {
		if err := cs.loadFile(f, pkgPath); err != nil && firstErr == nil {
			firstErr = err
		}
	}
	return cs, firstErr
}

type Unit struct {
	Key       string
	Short     string
	Con       *Contract
	Obls      []*Obligation
	Gaps      []string
	Trusted   []string
	Vacuity   *Obligation
	Entry     []ParamSym
	LoadMs    int64
	LockSites int
}

type Session struct {
	tier      string
	timeoutS  int
	repo      string
	ix        *funcIndex
	cs        *ContractSet
	tags      map[string]int
	units     []*Unit
	engineErr []string
	propID    string
	famCounts map[string]int
	outDir    string
	loadDir   string // where the packages were loaded from: /repo itself, or the scratch copy holding code regenerated from the working tree
}

func (s *Session) verifyKey(key string, con *Contract) *Unit {
	u := &Unit{Key: key, Short: shortKey(key), Con: con}
	base, litN := key, 0
	if i := strings.LastIndex(key, "$"); i >= 0 {
		if n, err := strconv.Atoi(key[i+1:]); err == nil {
			base, litN = key[:i], n
		}
	}
	ref := s.ix.byKey[base]
	var lit *ast.FuncLit
	if ref != nil && ref.fd.Body != nil && litN > 0 {
		lit = nthFuncLit(ref.fd, litN)
		if lit == nil {
			ref = nil
		}
	}
	if ref == nil || ref.fd.Body == nil {
		u.Obls = append(u.Obls, &Obligation{Name: u.Short + ":binding", Goal: "function under contract exists with a body", Result: SolveResult{Status: "unknown", Model: "no function " + key + " in the loaded packages"}})
		return u
	}
	con = con.forProp(s.propID)
	e := &Eng{funcIndex: s.ix, propID: s.propID, lit: lit, pkg: ref.pkg, info: ref.pkg.TypesInfo, fset: ref.pkg.Fset, contracts: s.cs, fn: ref.fd, fnKey: u.Short, con: con, strLits: map[string]string{}, allTags: &s.tags, globals: map[string]*Val{}, trustedUsed: map[string]bool{}}
	func() {
		defer func() {
			if r := recover(); r != nil {
				if os.Getenv("GOCV_TRACE") != "" {
					panic(r)
				}
				u.Obls = append(u.Obls, &Obligation{Name: u.Short + ":engine-error", Goal: "engine can process the function", Result: SolveResult{Status: "unknown", Model: fmt.Sprint(r)}})
			}
		}()
		e.verifyFunc(ref.obj)
	}()
	u.Obls = append(u.Obls, e.obls...)
	u.Gaps = e.gaps
	u.LockSites = e.lockSites
	for t := range e.trustedUsed {
		u.Trusted = append(u.Trusted, t)
	}
	sort.Strings(u.Trusted)
	u.Entry = e.entrySyms
	// vacuity script: declarations + requires must be satisfiable
	var sb strings.Builder
	for _, d := range e.declsAtEntry {
		sb.WriteString(d)
		sb.WriteString("\n")
	}
	body := sb.String() + "(check-sat)\n"
	u.Vacuity = &Obligation{Name: u.Short + ":vacuity", Script: preambleFor(body) + body, Goal: "(preamble+declarations+requires satisfiable)"}
	// anchors that never matched
	for text := range con.At {
		if !con.atUsed[text] && !con.OptAt[text] {
			u.Obls = append(u.Obls, &Obligation{Name: u.Short + ":anchor:" + text, Goal: "anchored call exists in the function", Result: SolveResult{Status: "unknown", Model: "no call with this text in " + key}})
		}
	}
	return u
}

func (s *Session) solveAll() {
	var wg sync.WaitGroup
	nconc := 14
	if s.tier == "thorough" {
		nconc = 7
	}
	total := 0
	for _, u := range s.units {
		total += len(u.Obls)
	}
	big := total > 1500
	sem := make(chan struct{}, nconc)
	n := 0
	run := func(o *Obligation) {
		if o == nil || o.Script == "" {
			return
		}
		n++
		id := n
		wg.Add(1)
		go func() {
			defer wg.Done()
			sem <- struct{}{}
			defer func() { <-sem }()
			if s.tier == "thorough" {
				o.Result = solveAgree(s.outDir, fmt.Sprintf("o%d", id), o.Script, s.timeoutS, big && id%10 != 0)
			} else {
				o.Result = solve(s.outDir, fmt.Sprintf("o%d", id), o.Script, s.timeoutS)
			}
		}()
	}
	for _, u := range s.units {
		for _, o := range u.Obls {
			run(o)
		}
		run(u.Vacuity)
	}
	wg.Wait()
}

func usage() {
	fmt.Fprintln(os.Stderr, `usage: gocv check <ID> [--tier quick|thorough]
       gocv replay <violation.json>
       gocv dev <ID|contractfile> [func-regexp]   (developer view: per-obligation table)
       gocv selftest [ID...]`)
	os.Exit(2)
}

func main() {
	if v := os.Getenv("VERIF_ROOT"); v != "" {
		verifRoot = v
	}
	if len(os.Args) < 2 {
		usage()
	}
	switch os.Args[1] {
	case "check":
		if len(os.Args) < 3 {
			usage()
		}
		tier := os.Getenv("VERIF_TIER")
		for i, a := range os.Args {
			if a == "--tier" && i+1 < len(os.Args) {
				tier = os.Args[i+1]
			}
		}
		if tier == "" {
			tier = "quick"
		}
		os.Exit(runCheck(os.Args[2], tier, false, ""))
	case "dev":
		if len(os.Args) < 3 {
			usage()
		}
		filter := ""
		if len(os.Args) > 3 {
			filter = os.Args[3]
		}
		os.Exit(runCheck(os.Args[2], "quick", true, filter))
	case "replay":
		if len(os.Args) < 3 {
			usage()
		}
		os.Exit(runReplayFile(os.Args[2]))
	case "selftest":
		os.Exit(runSelftest(os.Args[2:]))
	case "sweep":
		os.Exit(runSweep(os.Args[2:]))
	default:
		usage()
	}
}

func readConfig(id string) (*CheckConfig, error) {
	b, err := os.ReadFile(filepath.Join(verifRoot, "checks", id+".json"))
	if err != nil {
		return nil, err
	}
	var c CheckConfig
	if err := json.Unmarshal(b, &c); err != nil {
		return nil, fmt.Errorf("checks/%s.json: %v", id, err)
	}
	return &c, nil
}

func engineFail(id string, format string, a ...any) int {
	// An engine failure is not a property violation, but the check cannot claim the property either.
	msg := fmt.Sprintf(format, a...)
	fmt.Printf("ENGINE-ERROR property=%s %s\n", id, msg)
	dir := filepath.Join(verifRoot, "violations", id)
	os.MkdirAll(dir, 0o755)
	p := filepath.Join(dir, "engine-error.json")
	b, _ := json.MarshalIndent(map[string]any{"property": id, "obligation": "engine", "verifier_output": msg}, "", " ")
	os.WriteFile(p, b, 0o644)
	fmt.Printf("VIOLATION property=%s replay=%s no-failing-input-found\n", id, p)
	return 1
}

func runCheck(id, tier string, dev bool, filter string) int {
	t0 := time.Now()
	cfg, err := readConfig(id)
	if err != nil {
		fmt.Fprintln(os.Stderr, "config:", err)
		return 2
	}
	s := &Session{propID: id, tier: tier, timeoutS: 10, repo: repoDir(), tags: map[string]int{}}
	if tier == "thorough" {
		s.timeoutS = 60
	}
	s.outDir, _ = os.MkdirTemp("", "gocv")
	defer os.RemoveAll(s.outDir)

	loadDir := s.repo
	patterns := append([]string{}, cfg.Packages...)
	extra := map[string]string{}
	var probeInfo []ProbeResult
	if len(cfg.Probes) > 0 {
		scratch, infos, err := generateProbes(s.repo, cfg.Probes, tier)
		if scratch != "" {
			// scratch is <tmp>/gocvprobeNNN/repo: remove the whole probe directory (it also holds the generator binary)
			if parent := filepath.Dir(scratch); strings.HasPrefix(filepath.Base(parent), "gocvprobe") {
				defer os.RemoveAll(parent)
			} else {
				defer os.RemoveAll(scratch)
			}
		}
		if err != nil {
			return engineFail(id, "probe generation failed: %v", err)
		}
		loadDir = scratch
		s.loadDir = scratch
		probeInfo = infos
		for _, pi := range infos {
			patterns = append(patterns, pi.Patterns...)
		}
	}
	pkgs, err := loadPackages(loadDir, patterns)
	if err != nil {
		return engineFail(id, "loading packages: %v", err)
	}
	loadMs := time.Since(t0).Milliseconds()
	s.ix = buildIndex(pkgs)
	s.cs, err = loadContracts(pkgs, extra)
	if err != nil {
		return engineFail(id, "contract file: %v", err)
	}
	var re *regexp.Regexp
	if filter != "" {
		re = regexp.MustCompile(filter)
	}
	for _, key := range s.cs.Order {
		con := s.cs.ByKey[key]
		if con.Trusted || !(con.hasProp(id) || con.hasAnyProp(cfg.AlsoTags)) {
			continue
		}
		if re != nil && !re.MatchString(key) {
			continue
		}
		s.units = append(s.units, s.verifyKey(key, con))
	}
	s.units = append(s.units, s.familyUnits(id, probeInfo, re)...)
	s.solveAll()
	return s.report(id, cfg, dev, t0, loadMs, probeInfo)
}

func sanitize(name string) string {
	r := strings.Map(func(r rune) rune {
		switch {
		case r >= 'a' && r <= 'z', r >= 'A' && r <= 'Z', r >= '0' && r <= '9', r == '.', r == '-', r == '_', r == '#':
			return r
		}
		return '_'
	}, name)
	if len(r) > 150 {
		r = r[:150]
	}
	return r
}

// forProp drops the anchored clauses that are restricted to another property (`at ... requires @Cxx E`); an anchor
// left without clauses disappears with them.
func (c *Contract) forProp(id string) *Contract {
	if c == nil {
		return nil
	}
	need := false
	for _, cls := range c.At {
		for _, cl := range cls {
			if cl.Prop != "" && cl.Prop != id {
				need = true
			}
		}
	}
	if !need {
		return c
	}
	cp := *c
	cp.At = map[string][]AtClause{}
	for k, cls := range c.At {
		var keep []AtClause
		for _, cl := range cls {
			if cl.Prop == "" || cl.Prop == id {
				keep = append(keep, cl)
			}
		}
		if len(keep) > 0 {
			cp.At[k] = keep
		}
	}
	cp.atUsed = map[string]bool{}
	return &cp
}
