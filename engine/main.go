package main

import (
	"bufio"
	"fmt"
	"go/ast"
	"go/token"
	"go/types"
	"os"
	"path/filepath"
	"regexp"
	"strconv"
	"strings"
	"sync"
	"time"

	"golang.org/x/tools/go/packages"
)

func loadContracts(path string) (map[string]*Contract, []string, error) {
	f, err := os.Open(path)
	if err != nil {
		return nil, nil, err
	}
	defer f.Close()
	cons := map[string]*Contract{}
	var order []string
	var cur *Contract
	sc := bufio.NewScanner(f)
	sigRe := regexp.MustCompile(`^([^\s(]+|\([^)]*\)[^\s(]*)(?:\(([^)]*)\))?(?:\s*\(([^)]*)\))?$`)
	for sc.Scan() {
		line := strings.TrimSpace(sc.Text())
		line = strings.TrimPrefix(line, "//@")
		line = strings.TrimSpace(line)
		if line == "" || strings.HasPrefix(line, "#") {
			continue
		}
		word, rest, _ := strings.Cut(line, " ")
		rest = strings.TrimSpace(rest)
		switch word {
		case "func", "trusted":
			m := sigRe.FindStringSubmatch(rest)
			if m == nil {
				return nil, nil, fmt.Errorf("bad signature: %s", line)
			}
			cur = &Contract{Key: m[1], Trusted: word == "trusted", Invs: map[int][]*SExpr{}}
			if m[2] != "" {
				for _, p := range strings.Split(m[2], ",") {
					cur.Params = append(cur.Params, strings.TrimSpace(p))
				}
			}
			if m[3] != "" {
				for _, p := range strings.Split(m[3], ",") {
					cur.Results = append(cur.Results, strings.TrimSpace(p))
				}
			}
			cons[cur.Key] = cur
			order = append(order, cur.Key)
		case "requires", "ensures":
			x, err := ParseSpec(rest)
			if err != nil {
				return nil, nil, err
			}
			if word == "requires" {
				cur.Requires = append(cur.Requires, x)
			} else {
				cur.Ensures = append(cur.Ensures, x)
			}
		case "noescape":
			cur.NoEscape = true
		case "nopanic":
			cur.NoPanic = true
		case "smt":
			cur.RawSMT = append(cur.RawSMT, rest)
		case "ghost":
			// ghost name = expr
			n, ex, _ := strings.Cut(rest, "=")
			x, err := ParseSpec(strings.TrimSpace(ex))
			if err != nil {
				return nil, nil, err
			}
			cur.Ghosts = append(cur.Ghosts, AtClause{Kind: "ghost", Name: strings.TrimSpace(n), Expr: x})
		case "at":
			// at `text` requires E   |  at `text` ghost g = E
			i := strings.Index(rest, "`")
			j := strings.LastIndex(rest, "`")
			text := rest[i+1 : j]
			cl := strings.TrimSpace(rest[j+1:])
			kw, body, _ := strings.Cut(cl, " ")
			if cur.At == nil {
				cur.At = map[string][]AtClause{}
			}
			if kw == "requires" {
				x, err := ParseSpec(body)
				if err != nil {
					return nil, nil, err
				}
				cur.At[text] = append(cur.At[text], AtClause{Kind: "requires", Expr: x})
			} else {
				n, ex, _ := strings.Cut(body, "=")
				x, err := ParseSpec(strings.TrimSpace(ex))
				if err != nil {
					return nil, nil, err
				}
				cur.At[text] = append(cur.At[text], AtClause{Kind: "ghost", Name: strings.TrimSpace(n), Expr: x})
			}
		case "loop":
			// loop N: invariant E
			parts := strings.SplitN(rest, ":", 2)
			n, _ := strconv.Atoi(strings.TrimSpace(parts[0]))
			body := strings.TrimSpace(parts[1])
			body = strings.TrimSpace(strings.TrimPrefix(body, "invariant"))
			x, err := ParseSpec(body)
			if err != nil {
				return nil, nil, err
			}
			cur.Invs[n] = append(cur.Invs[n], x)
		default:
			return nil, nil, fmt.Errorf("unknown clause: %s", line)
		}
	}
	return cons, order, nil
}

func findFunc(pkgs []*packages.Package, key string) (*packages.Package, *ast.FuncDecl, *types.Func) {
	var res *packages.Package
	var rd *ast.FuncDecl
	var rf *types.Func
	packages.Visit(pkgs, nil, func(p *packages.Package) {
		for _, f := range p.Syntax {
			for _, d := range f.Decls {
				fd, ok := d.(*ast.FuncDecl)
				if !ok {
					continue
				}
				obj, _ := p.TypesInfo.Defs[fd.Name].(*types.Func)
				if obj != nil && obj.FullName() == key {
					res, rd, rf = p, fd, obj
				}
			}
		}
	})
	return res, rd, rf
}

func main() {
	repo := os.Getenv("VERIF_REPO")
	if repo == "" {
		repo = "/repo"
	}
	conFile := os.Args[1]
	cons, order, err := loadContracts(conFile)
	if err != nil {
		fmt.Println("contract error:", err)
		os.Exit(2)
	}
	t0 := time.Now()
	cfg := &packages.Config{Mode: packages.NeedName | packages.NeedSyntax | packages.NeedTypes | packages.NeedTypesInfo | packages.NeedFiles | packages.NeedImports | packages.NeedDeps, Dir: repo}
	pkgs, err := packages.Load(cfg, os.Args[2:]...)
	if err != nil {
		panic(err)
	}
	fmt.Printf("loaded in %v\n", time.Since(t0))
	outDir, _ := os.MkdirTemp("", "gocv")
	defer os.RemoveAll(outDir)
	tags := map[string]int{}
	var all []*Obligation
	var gaps []string
	for _, key := range order {
		con := cons[key]
		if con.Trusted {
			continue
		}
		p, fd, fobj := findFunc(pkgs, key)
		if fd == nil {
			fmt.Printf("BINDING FAILED: %s\n", key)
			all = append(all, &Obligation{Name: key + ":binding", Result: SolveResult{Status: "unknown"}})
			continue
		}
		e := &Eng{pkg: p, info: p.TypesInfo, fset: p.Fset, contracts: cons, fn: fd, fnKey: shortKey(key), con: con, strLits: map[string]string{}, allTags: &tags}
		func() {
			defer func() {
				if r := recover(); r != nil {
					fmt.Printf("ENGINE ERROR in %s: %v\n", key, r)
					all = append(all, &Obligation{Name: key + ":engine-error", Result: SolveResult{Status: "unknown", Model: fmt.Sprint(r)}})
				}
			}()
			e.verifyFunc(fobj)
		}()
		all = append(all, e.obls...)
		for _, g := range e.gaps {
			gaps = append(gaps, shortKey(key)+": "+g)
		}
	}
	// solve in parallel
	var wg sync.WaitGroup
	sem := make(chan struct{}, 5)
	for i, o := range all {
		if o.Script == "" {
			continue
		}
		wg.Add(1)
		go func(i int, o *Obligation) {
			defer wg.Done()
			sem <- struct{}{}
			defer func() { <-sem }()
			o.Result = solve(outDir, fmt.Sprintf("o%d", i), o.Script, 10)
		}(i, o)
	}
	wg.Wait()
	fail := 0
	for _, o := range all {
		st := "OK  "
		if o.Result.Status != "unsat" {
			st = "FAIL"
			fail++
		}
		fmt.Printf("%s %-8s %-7s %5dms  %s\n", st, o.Result.Status, o.Result.Backend, o.Result.Ms, o.Name)
		if o.Result.Status == "sat" && os.Getenv("SHOWMODEL") != "" {
			fmt.Println(filterModel(o.Result.Model))
		}
		if os.Getenv("KEEP") != "" {
			os.WriteFile(filepath.Join(os.Getenv("KEEP"), strings.Map(func(r rune) rune {
				if r == '/' || r == ' ' || r == '"' {
					return '_'
				}
				return r
			}, o.Name)+".smt2"), []byte(o.Script), 0o644)
		}
	}
	fmt.Printf("%d obligations, %d failed, %v total\n", len(all), fail, time.Since(t0))
	if os.Getenv("GAPS") != "" {
		for _, g := range gaps {
			fmt.Println("gap:", g)
		}
	}
}

func filterModel(m string) string {
	var out []string
	lines := strings.Split(m, "\n")
	for i := 0; i < len(lines); i++ {
		l := lines[i]
		if strings.Contains(l, "define-fun") && !strings.Contains(l, "!") || strings.Contains(l, "|a!") || strings.Contains(l, "|b!") || strings.Contains(l, "|v!") || strings.Contains(l, "|i!") {
			if i+1 < len(lines) {
				out = append(out, strings.TrimSpace(l)+" "+strings.TrimSpace(lines[i+1]))
			}
		}
	}
	if len(out) > 30 {
		out = out[:30]
	}
	return "    " + strings.Join(out, "\n    ")
}

func (e *Eng) runDeferred(st *State, d deferEntry) *State {
	fl, ok := ast.Unparen(d.call.Fun).(*ast.FuncLit)
	if !ok {
		// plain deferred call: evaluate as a call now
		e.evalCall(st, d.call)
		if st.dead {
			return nil
		}
		return st
	}
	i := 0
	for _, f := range fl.Type.Params.List {
		for _, n := range f.Names {
			st.vars[e.info.Defs[n]] = d.args[i]
			i++
		}
	}
	saved := e.exits
	savedRes := e.results
	e.exits = nil
	e.results = nil
	end := e.execBlock(st, fl.Body.List)
	outs := []*State{end}
	var keep []Exit
	for _, x := range e.exits {
		if x.Kind == ExitReturn {
			outs = append(outs, x.St)
		} else {
			keep = append(keep, x)
		}
	}
	e.exits = append(saved, keep...)
	e.results = savedRes
	return e.merge(outs)
}

func (e *Eng) verifyFunc(fobj *types.Func) {
	sig := fobj.Type().(*types.Signature)
	st := &State{vars: map[types.Object]*Val{}, path: "true", heap: map[string]string{"$epoch": "0"}, counters: map[string]string{}}
	env := map[string]*Val{}
	bind := func(v *types.Var) {
		if v == nil || v.Name() == "" || v.Name() == "_" {
			return
		}
		val := e.freshVal(v.Name(), v.Type())
		st.vars[v] = val
		env[v.Name()] = val
	}
	if sig.Recv() != nil {
		// receiver object from the decl (Defs), not sig
		if e.fn.Recv != nil && len(e.fn.Recv.List) > 0 && len(e.fn.Recv.List[0].Names) > 0 {
			obj := e.info.Defs[e.fn.Recv.List[0].Names[0]].(*types.Var)
			bind(obj)
		}
	}
	for _, f := range e.fn.Type.Params.List {
		for _, n := range f.Names {
			if obj, ok := e.info.Defs[n].(*types.Var); ok {
				bind(obj)
			}
		}
	}
	// results
	if e.fn.Type.Results != nil {
		i := 0
		for _, f := range e.fn.Type.Results.List {
			if len(f.Names) == 0 {
				obj := types.NewVar(token.NoPos, nil, fmt.Sprintf("res%d", i), e.info.TypeOf(f.Type))
				e.results = append(e.results, obj)
				i++
				continue
			}
			for _, n := range f.Names {
				obj := e.info.Defs[n].(*types.Var)
				st.vars[obj] = e.zeroVal(obj.Type())
				e.results = append(e.results, obj)
				i++
			}
		}
	}
	e.oldEnv = env
	if len(e.con.RawSMT) > 0 {
		e.ensureRunes()
		e.ensureSubstr()
	}
	e.decls = append(e.decls, e.con.RawSMT...)
	e.ghosts = map[string]types.Object{}
	for _, g := range e.con.Ghosts {
		obj := types.NewVar(token.NoPos, nil, g.Name, types.Typ[types.Int])
		e.ghosts[g.Name] = obj
		st.vars[obj] = e.evalSpec(st, g.Expr, env, env)
	}
	for _, r := range e.con.Requires {
		g := e.evalSpec(st, r, env, env)
		e.decls = append(e.decls, fmt.Sprintf("(assert %s)", g.T))
	}
	end := e.execBlock(st, e.fn.Body.List)
	if end != nil {
		var vals []*Val
		for _, r := range e.results {
			vals = append(vals, end.vars[r])
		}
		e.exits = append(e.exits, Exit{Kind: ExitReturn, St: end, Vals: vals, Pos: e.fn.Body.Rbrace})
	}
	// run deferred calls on every exit
	exits := e.exits
	e.exits = nil
	for i := range exits {
		x := &exits[i]
		if x.Kind == ExitReturn {
			for ri, r := range e.results {
				if ri < len(x.Vals) && x.Vals[ri] != nil {
					x.St.vars[r] = x.Vals[ri]
				}
			}
		}
		for d := len(x.St.defers) - 1; d >= 0 && x.St != nil; d-- {
			x.St = e.runDeferred(x.St, x.St.defers[d])
		}
		if x.St == nil {
			continue
		}
		if x.Kind == ExitPanic && !x.St.panicking {
			x.Kind = ExitReturn // recovered
		}
		if x.Kind == ExitReturn {
			x.Vals = nil
			for _, r := range e.results {
				x.Vals = append(x.Vals, x.St.vars[r])
			}
		}
	}
	e.exits = exits
	nret := 0
	for _, x := range e.exits {
		if x.St == nil {
			continue
		}
		if x.Kind == ExitPanic {
			if e.con.NoEscape {
				e.oblige(x.St, "noescape", "panic escapes", "false", x.Pos)
			}
			continue
		}
		if x.Kind != ExitReturn {
			continue
		}
		nret++
		renv := map[string]*Val{}
		for k, v := range env {
			renv[k] = v
		}
		for i, r := range e.results {
			if i < len(x.Vals) && x.Vals[i] != nil {
				renv[r.Name()] = x.Vals[i]
				renv[fmt.Sprintf("res%d", i)] = x.Vals[i]
			}
		}
		for n, o := range e.ghosts {
			renv[n] = x.St.vars[o]
		}
		renv["panicked"] = scalar(strconv.FormatBool(x.St.recovered), "Bool", nil)
		for qi, q := range e.con.Ensures {
			g := e.evalSpec(x.St, q, renv, env)
			e.oblige(x.St, "ensures", fmt.Sprintf("#%d@return%d", qi+1, nret), g.T, x.Pos)
		}
	}
	_ = sig
}
