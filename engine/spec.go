package main

// Spec language: Go-like expressions + ==>, <==>, forall/exists, old(), etc.

import (
	"fmt"
	"go/scanner"
	"go/token"
	"strings"
)

type SKind int

const (
	SIdent SKind = iota
	SIntLit
	SStrLit
	SCharLit
	SBinary
	SUnary
	SCall
	SSelector
	SIndex
	SSlice
	SQuant
	STypeAssert
	SParen
)

type SExpr struct {
	Kind SKind
	Name string   // ident / selector name / operator / quantifier kind
	Args []*SExpr // operands
	// quantifier
	QVars  []string
	QTypes []string
	// type assert / typeOf
	TypeName string
	Pos      int
}

func (e *SExpr) String() string {
	switch e.Kind {
	case SIdent, SIntLit, SStrLit, SCharLit:
		return e.Name
	case SBinary:
		return "(" + e.Args[0].String() + " " + e.Name + " " + e.Args[1].String() + ")"
	case SUnary:
		return e.Name + e.Args[0].String()
	case SCall:
		var a []string
		for _, x := range e.Args[1:] {
			a = append(a, x.String())
		}
		return e.Args[0].String() + "(" + strings.Join(a, ", ") + ")"
	case SSelector:
		return e.Args[0].String() + "." + e.Name
	case SIndex:
		return e.Args[0].String() + "[" + e.Args[1].String() + "]"
	case SQuant:
		return e.Name + " " + strings.Join(e.QVars, ",") + " :: " + e.Args[0].String()
	case STypeAssert:
		return e.Args[0].String() + ".(" + e.TypeName + ")"
	}
	return "?"
}

type tok struct {
	t   token.Token
	lit string
	pos int
	// synthetic
	op string
}

type specParser struct {
	toks []tok
	i    int
	src  string
}

func lexSpec(src string) ([]tok, error) {
	fset := token.NewFileSet()
	f := fset.AddFile("spec", -1, len(src))
	var s scanner.Scanner
	var errs []string
	s.Init(f, []byte(src), func(pos token.Position, msg string) { errs = append(errs, msg) }, 0)
	var out []tok
	for {
		p, t, lit := s.Scan()
		if t == token.EOF {
			break
		}
		if t == token.SEMICOLON && lit == "\n" {
			continue
		}
		out = append(out, tok{t: t, lit: lit, pos: int(p) - f.Base()})
	}
	if len(errs) > 0 {
		return nil, fmt.Errorf("lex %q: %s", src, strings.Join(errs, "; "))
	}
	// combine ==> and <==> and ::
	var res []tok
	for i := 0; i < len(out); i++ {
		t := out[i]
		if t.t == token.EQL && i+1 < len(out) && out[i+1].t == token.GTR && out[i+1].pos == t.pos+2 {
			res = append(res, tok{t: token.ILLEGAL, op: "==>", pos: t.pos})
			i++
			continue
		}
		if t.t == token.LEQ && i+2 < len(out) && out[i+1].t == token.ASSIGN && out[i+2].t == token.GTR && out[i+1].pos == t.pos+2 && out[i+2].pos == t.pos+3 {
			res = append(res, tok{t: token.ILLEGAL, op: "<==>", pos: t.pos})
			i += 2
			continue
		}
		if t.t == token.COLON && i+1 < len(out) && out[i+1].t == token.COLON && out[i+1].pos == t.pos+1 {
			res = append(res, tok{t: token.ILLEGAL, op: "::", pos: t.pos})
			i++
			continue
		}
		res = append(res, t)
	}
	return res, nil
}

func ParseSpec(src string) (e *SExpr, err error) {
	toks, err := lexSpec(src)
	if err != nil {
		return nil, err
	}
	p := &specParser{toks: toks, src: src}
	defer func() {
		if r := recover(); r != nil {
			err = fmt.Errorf("spec parse error in %q: %v", src, r)
		}
	}()
	e = p.expr(0)
	if p.i != len(p.toks) {
		panic(fmt.Sprintf("trailing tokens at %d", p.toks[p.i].pos))
	}
	return e, nil
}

func (p *specParser) peek() tok {
	if p.i < len(p.toks) {
		return p.toks[p.i]
	}
	return tok{t: token.EOF}
}
func (p *specParser) next() tok { t := p.peek(); p.i++; return t }
func (p *specParser) expect(t token.Token) tok {
	x := p.next()
	if x.t != t {
		panic(fmt.Sprintf("expected %v got %v %q at %d", t, x.t, x.lit, x.pos))
	}
	return x
}

func binPrec(t tok) (int, string) {
	if t.op == "<==>" {
		return 1, "<==>"
	}
	if t.op == "==>" {
		return 2, "==>"
	}
	switch t.t {
	case token.LOR:
		return 3, "||"
	case token.LAND:
		return 4, "&&"
	case token.EQL, token.NEQ, token.LSS, token.LEQ, token.GTR, token.GEQ:
		return 5, t.t.String()
	case token.ADD, token.SUB, token.OR, token.XOR:
		return 6, t.t.String()
	case token.MUL, token.QUO, token.REM, token.SHL, token.SHR, token.AND:
		return 7, t.t.String()
	}
	return 0, ""
}

func (p *specParser) expr(minPrec int) *SExpr {
	lhs := p.unary()
	for {
		prec, op := binPrec(p.peek())
		if prec == 0 || prec < minPrec {
			return lhs
		}
		p.next()
		var rhs *SExpr
		if op == "==>" { // right assoc
			rhs = p.expr(prec)
		} else {
			rhs = p.expr(prec + 1)
		}
		lhs = &SExpr{Kind: SBinary, Name: op, Args: []*SExpr{lhs, rhs}}
	}
}

func (p *specParser) unary() *SExpr {
	t := p.peek()
	switch t.t {
	case token.NOT:
		p.next()
		return &SExpr{Kind: SUnary, Name: "!", Args: []*SExpr{p.unary()}}
	case token.SUB:
		p.next()
		return &SExpr{Kind: SUnary, Name: "-", Args: []*SExpr{p.unary()}}
	}
	return p.postfix(p.primary())
}

func (p *specParser) typeName() string {
	// simple type syntax: [*][]pkg.Name | map[K]V | []T | any
	var sb strings.Builder
	for {
		t := p.peek()
		switch t.t {
		case token.MUL:
			p.next()
			sb.WriteString("*")
			continue
		case token.LBRACK:
			p.next()
			p.expect(token.RBRACK)
			sb.WriteString("[]")
			continue
		case token.MAP:
			p.next()
			p.expect(token.LBRACK)
			k := p.typeName()
			p.expect(token.RBRACK)
			v := p.typeName()
			return sb.String() + "map[" + k + "]" + v
		case token.IDENT:
			p.next()
			sb.WriteString(t.lit)
			if p.peek().t == token.PERIOD {
				p.next()
				n := p.expect(token.IDENT)
				sb.WriteString("." + n.lit)
			}
			return sb.String()
		case token.INTERFACE:
			p.next()
			p.expect(token.LBRACE)
			p.expect(token.RBRACE)
			return sb.String() + "any"
		}
		panic(fmt.Sprintf("bad type at %d", t.pos))
	}
}

func (p *specParser) primary() *SExpr {
	t := p.next()
	switch t.t {
	case token.INT:
		return &SExpr{Kind: SIntLit, Name: t.lit}
	case token.STRING:
		return &SExpr{Kind: SStrLit, Name: t.lit}
	case token.CHAR:
		return &SExpr{Kind: SCharLit, Name: t.lit}
	case token.LPAREN:
		e := p.expr(0)
		p.expect(token.RPAREN)
		return e
	case token.IDENT:
		if t.lit == "forall" || t.lit == "exists" {
			q := &SExpr{Kind: SQuant, Name: t.lit}
			for {
				v := p.expect(token.IDENT)
				ty := p.typeName()
				q.QVars = append(q.QVars, v.lit)
				q.QTypes = append(q.QTypes, ty)
				if p.peek().t == token.COMMA {
					p.next()
					continue
				}
				break
			}
			if p.peek().op != "::" {
				panic("expected :: in quantifier")
			}
			p.next()
			q.Args = []*SExpr{p.expr(0)}
			return q
		}
		return &SExpr{Kind: SIdent, Name: t.lit}
	}
	panic(fmt.Sprintf("unexpected token %v %q at %d", t.t, t.lit, t.pos))
}

func (p *specParser) postfix(e *SExpr) *SExpr {
	for {
		t := p.peek()
		switch t.t {
		case token.PERIOD:
			p.next()
			if p.peek().t == token.LPAREN {
				p.next()
				tn := p.typeName()
				p.expect(token.RPAREN)
				e = &SExpr{Kind: STypeAssert, Args: []*SExpr{e}, TypeName: tn}
				continue
			}
			n := p.expect(token.IDENT)
			e = &SExpr{Kind: SSelector, Name: n.lit, Args: []*SExpr{e}}
		case token.LPAREN:
			p.next()
			args := []*SExpr{e}
			// typeOf(x) == T handled at eval; here allow type names as idents
			for p.peek().t != token.RPAREN {
				args = append(args, p.expr(0))
				if p.peek().t == token.COMMA {
					p.next()
				}
			}
			p.expect(token.RPAREN)
			e = &SExpr{Kind: SCall, Args: args}
		case token.LBRACK:
			p.next()
			var lo, hi *SExpr
			if p.peek().t != token.COLON {
				lo = p.expr(0)
			}
			if p.peek().t == token.COLON {
				p.next()
				if p.peek().t != token.RBRACK {
					hi = p.expr(0)
				}
				p.expect(token.RBRACK)
				e = &SExpr{Kind: SSlice, Args: []*SExpr{e, lo, hi}}
				continue
			}
			p.expect(token.RBRACK)
			e = &SExpr{Kind: SIndex, Args: []*SExpr{e, lo}}
		default:
			return e
		}
	}
}
