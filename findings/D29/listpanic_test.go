package followschema

import (
	"context"
	"encoding/json"
	"fmt"
	"net/http/httptest"
	"strings"
	"sync/atomic"
	"testing"
	"time"

	"github.com/99designs/gqlgen/graphql"
	"github.com/99designs/gqlgen/graphql/handler"
	"github.com/99designs/gqlgen/graphql/handler/transport"
)

// a Go type that satisfies the Shape interface but is not one of the schema's implementors
type d29Blob struct{}

func (*d29Blob) Area() float64 { return 1 }
func (*d29Blob) isShape()      {}

// D29: one list element cannot be completed (its marshaler panics: "unexpected type"). C04/C01: only that position
// fails - null with one error at its path -, every other position keeps its value, the recover hook runs once.
func TestD29ListElementPanic(t *testing.T) {
	resolvers := &Stub{}
	resolvers.QueryResolver.Shapes = func(ctx context.Context) ([]Shape, error) {
		return []Shape{&d29Blob{}, &Circle{Radius: 1}}, nil
	}
	var recovered int32
	srv := handler.New(NewExecutableSchema(Config{Resolvers: resolvers}))
	srv.AddTransport(transport.POST{})
	srv.SetRecoverFunc(func(ctx context.Context, err any) error {
		atomic.AddInt32(&recovered, 1)
		return fmt.Errorf("recovered: %v", err)
	})
	// the healthy element takes a little longer than the failing one
	srv.AroundFields(func(ctx context.Context, next graphql.Resolver) (any, error) {
		if graphql.GetFieldContext(ctx).Object == "Circle" {
			time.Sleep(50 * time.Millisecond)
		}
		return next(ctx)
	})

	w := httptest.NewRecorder()
	r := httptest.NewRequest("POST", "/", strings.NewReader(`{"query":"{ shapes { area } }"}`))
	r.Header.Set("Content-Type", "application/json")
	srv.ServeHTTP(w, r)
	t.Logf("status=%d body=%s recover hook calls=%d", w.Code, w.Body.String(), recovered)

	var resp struct {
		Data   struct{ Shapes []*struct{ Area float64 } }
		Errors []struct {
			Message string
			Path    []any
		}
	}
	if err := json.Unmarshal(w.Body.Bytes(), &resp); err != nil {
		t.Fatal(err)
	}
	if len(resp.Data.Shapes) != 2 || resp.Data.Shapes[0] != nil || resp.Data.Shapes[1] == nil {
		t.Errorf("want shapes == [null, {area}], got %s", w.Body.String())
	}
	if len(resp.Errors) != 1 {
		t.Errorf("want exactly one error, got %d", len(resp.Errors))
	}
	if recovered != 1 {
		t.Errorf("recover hook ran %d times for one panic", recovered)
	}
}
