package federation

import (
	"testing"

	"github.com/99designs/gqlgen/client"
	"github.com/99designs/gqlgen/graphql/handler"
	"github.com/99designs/gqlgen/graphql/handler/transport"
	"github.com/99designs/gqlgen/plugin/federation/testdata/entityresolver"
	"github.com/99designs/gqlgen/plugin/federation/testdata/entityresolver/generated"
)

// D36: in a batch, the @requires value of ONE representation cannot be coerced (world.foo is an object, not a String).
func TestD36OneBadRequiresValueInBatch(t *testing.T) {
	srv := handler.New(generated.NewExecutableSchema(generated.Config{Resolvers: &entityresolver.Resolver{}}))
	srv.AddTransport(transport.POST{})
	c := client.New(srv)
	for _, typ := range []string{"PlanetRequiresNested", "MultiPlanetRequiresNested"} {
		reps := []map[string]any{
			{"__typename": typ, "name": "earth", "world": map[string]any{"foo": map[string]any{}}},
			{"__typename": typ, "name": "mars", "world": map[string]any{"foo": "B"}},
		}
		var resp struct {
			Entities []*struct{ Name string } `json:"_entities"`
		}
		err := c.Post(entityQuery([]string{typ + " {name}"}), &resp, client.Var("representations", reps))
		t.Logf("%s: element0 null=%v element1 null=%v err=%v", typ, resp.Entities[0] == nil, resp.Entities[1] == nil, err)
		if resp.Entities[1] == nil {
			t.Errorf("%s: representation 1 is fine but its element is null because representation 0 failed", typ)
		}
	}
}
