package federation

import (
	"context"
	"fmt"
	"sync/atomic"
	"testing"

	"github.com/99designs/gqlgen/client"
	"github.com/99designs/gqlgen/graphql/handler"
	"github.com/99designs/gqlgen/graphql/handler/transport"
	"github.com/99designs/gqlgen/plugin/federation/testdata/entityresolver"
	"github.com/99designs/gqlgen/plugin/federation/testdata/entityresolver/generated"
	"github.com/99designs/gqlgen/plugin/federation/testdata/entityresolver/generated/model"
)

type d35Root struct{ *entityresolver.Resolver }

func (r d35Root) Entity() generated.EntityResolver { return d35Entities{r.Resolver.Entity()} }

type d35Entities struct{ generated.EntityResolver }

// "not found": no entity, no error
func (d35Entities) FindPlanetRequiresByName(ctx context.Context, name string) (*model.PlanetRequires, error) {
	return nil, nil
}

// one entity too few / too many for the batch
func (d35Entities) FindManyMultiHelloByNames(ctx context.Context, reps []*model.MultiHelloByNamesInput) ([]*model.MultiHello, error) {
	if len(reps) == 3 {
		return []*model.MultiHello{{Name: "only one"}}, nil
	}
	return []*model.MultiHello{{Name: "a"}, {Name: "b"}, {Name: "c"}}, nil
}

func TestD35UserResolverResults(t *testing.T) {
	var recovered int32
	srv := handler.New(generated.NewExecutableSchema(generated.Config{Resolvers: d35Root{&entityresolver.Resolver{}}}))
	srv.AddTransport(transport.POST{})
	srv.SetRecoverFunc(func(ctx context.Context, err any) error {
		atomic.AddInt32(&recovered, 1)
		return fmt.Errorf("recovered: %v", err)
	})
	c := client.New(srv)
	run := func(what, typ string, reps []map[string]any) {
		atomic.StoreInt32(&recovered, 0)
		var resp struct {
			Entities []*struct{ Name string } `json:"_entities"`
		}
		err := c.Post(entityQuery([]string{typ + " {name}"}), &resp, client.Var("representations", reps))
		var names []string
		for _, e := range resp.Entities {
			if e == nil {
				names = append(names, "null")
			} else {
				names = append(names, e.Name)
			}
		}
		t.Logf("%s: entities=%v err=%v recover hook calls=%d", what, names, err, recovered)
		if recovered != 0 {
			t.Errorf("%s: gqlgen's own code panicked (recover hook ran %d times)", what, recovered)
		}
		for _, n := range names {
			// ("not found" - no entity, no error - is a legitimate null)
			if n == "null" && err == nil && typ != "PlanetRequires" {
				t.Errorf("%s: a null element without any error", what)
			}
		}
	}
	run("resolver returns (nil, nil) for an entity with @requires", "PlanetRequires", []map[string]any{{"__typename": "PlanetRequires", "name": "earth", "diameter": 1}})
	run("batch resolver returns 1 entity for 3 representations", "MultiHello", []map[string]any{{"__typename": "MultiHello", "name": "a"}, {"__typename": "MultiHello", "name": "b"}, {"__typename": "MultiHello", "name": "c"}})
	run("batch resolver returns 3 entities for 2 representations", "MultiHello", []map[string]any{{"__typename": "MultiHello", "name": "a"}, {"__typename": "MultiHello", "name": "b"}})
}
