package followschema

import (
	"context"
	"fmt"
	"net/http/httptest"
	"strings"
	"sync/atomic"
	"testing"

	"github.com/99designs/gqlgen/graphql/handler"
	"github.com/99designs/gqlgen/graphql/handler/transport"
)

// D30: a value whose MarshalGQL panics (user code) is only serialized after every resolver has run.
func TestD30LatePanic(t *testing.T) {
	var ran int32
	resolvers := &Stub{}
	resolvers.QueryResolver.Panics = func(ctx context.Context) (*Panics, error) {
		atomic.AddInt32(&ran, 1)
		return &Panics{}, nil
	}
	resolvers.PanicsResolver.FieldScalarMarshal = func(ctx context.Context, obj *Panics) ([]MarshalPanic, error) {
		atomic.AddInt32(&ran, 1)
		return []MarshalPanic{MarshalPanic("aa")}, nil
	}
	srv := handler.New(NewExecutableSchema(Config{Resolvers: resolvers}))
	srv.AddTransport(transport.SSE{})
	srv.AddTransport(transport.MultipartMixed{})
	srv.AddTransport(transport.POST{})
	srv.SetRecoverFunc(func(ctx context.Context, err any) error { return fmt.Errorf("panic: %v", err) })

	for _, accept := range []string{"application/json", "text/event-stream", "multipart/mixed"} {
		atomic.StoreInt32(&ran, 0)
		w := httptest.NewRecorder()
		r := httptest.NewRequest("POST", "/", strings.NewReader(`{"query":"{ panics { fieldScalarMarshal } }"}`))
		r.Header.Set("Content-Type", "application/json")
		r.Header.Set("Accept", accept)
		srv.ServeHTTP(w, r)
		t.Logf("Accept %s: status=%d resolvers run=%d content-type=%q body=%q", accept, w.Code, ran, w.Header().Get("Content-Type"), w.Body.String())
		if w.Code/100 != 2 && ran > 0 {
			t.Errorf("Accept %s: answered %d although %d resolvers had run", accept, w.Code, ran)
		}
	}
}
