package federation

import (
	"testing"

	"github.com/99designs/gqlgen/client"
	"github.com/99designs/gqlgen/graphql/handler"
	"github.com/99designs/gqlgen/graphql/handler/transport"
	"github.com/99designs/gqlgen/plugin/federation/testdata/entityresolver"
	"github.com/99designs/gqlgen/plugin/federation/testdata/entityresolver/generated"
)

// D33: a representation without its key field, in a type that is resolved in batches.
func TestD33MissingKeyInBatch(t *testing.T) {
	srv := handler.New(generated.NewExecutableSchema(generated.Config{Resolvers: &entityresolver.Resolver{}}))
	srv.AddTransport(transport.POST{})
	c := client.New(srv)
	for _, typ := range []string{"Hello", "MultiHello"} {
		reps := []map[string]any{
			{"__typename": typ, "name": "first"},
			{"__typename": typ},
			{"__typename": typ, "name": nil},
		}
		var resp struct {
			Entities []*struct {
				Name string `json:"name"`
			} `json:"_entities"`
		}
		err := c.Post(entityQuery([]string{typ + " {name}"}), &resp, client.Var("representations", reps))
		for i, e := range resp.Entities {
			if e == nil {
				t.Logf("%s: element %d = null", typ, i)
			} else {
				t.Logf("%s: element %d = {name:%q}", typ, i, e.Name)
			}
		}
		t.Logf("%s: errors: %v", typ, err)
		if len(resp.Entities) == 3 && (resp.Entities[1] != nil || resp.Entities[2] != nil) {
			t.Errorf("%s: a representation without a key was resolved to an entity", typ)
		}
	}
}
