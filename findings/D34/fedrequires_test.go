package federation

import (
	"context"
	"fmt"
	"sync/atomic"
	"testing"

	"github.com/99designs/gqlgen/client"
	"github.com/99designs/gqlgen/graphql/handler"
	"github.com/99designs/gqlgen/graphql/handler/transport"
	"github.com/99designs/gqlgen/plugin/federation/testdata/entityresolver"
	"github.com/99designs/gqlgen/plugin/federation/testdata/entityresolver/generated"
)

// D34: a representation whose @requires selection `world { foo }` is not an object (or absent).
func TestD34RequiresNotAnObject(t *testing.T) {
	var recovered int32
	srv := handler.New(generated.NewExecutableSchema(generated.Config{Resolvers: &entityresolver.Resolver{}}))
	srv.AddTransport(transport.POST{})
	srv.SetRecoverFunc(func(ctx context.Context, err any) error {
		atomic.AddInt32(&recovered, 1)
		return fmt.Errorf("recovered: %v", err)
	})
	c := client.New(srv)
	for _, typ := range []string{"PlanetRequiresNested", "MultiPlanetRequiresNested"} {
		for _, world := range []any{"x", nil, "absent"} {
			atomic.StoreInt32(&recovered, 0)
			rep := map[string]any{"__typename": typ, "name": "earth", "world": world}
			if world == "absent" {
				delete(rep, "world")
			}
			var resp struct {
				Entities []*struct{ Name string } `json:"_entities"`
			}
			err := c.Post(entityQuery([]string{typ + " {name}"}), &resp, client.Var("representations", []map[string]any{rep}))
			t.Logf("%s world=%v: entities=%v err=%v recover hook calls=%d", typ, world, resp.Entities, err, recovered)
			if recovered != 0 {
				t.Errorf("%s world=%v: gqlgen's own code panicked on client input (recover hook ran %d times)", typ, world, recovered)
			}
		}
	}
}
