package transport_test

import (
	"context"
	"encoding/json"
	"net/http/httptest"
	"sync/atomic"
	"testing"
	"time"

	"github.com/99designs/gqlgen/graphql/handler/testserver"
	"github.com/99designs/gqlgen/graphql/handler/transport"
)

// D31: a negative keep-alive / ping interval (a disabled interval written as -1 instead of 0, as D28 for SSE).
func TestD31WebsocketNegativeInterval(t *testing.T) {
	for name, tr := range map[string]transport.Websocket{
		"KeepAlivePingInterval": {KeepAlivePingInterval: -time.Second},
		"PongOnlyInterval":      {PongOnlyInterval: -time.Second},
		"PingPongInterval":      {PingPongInterval: -time.Second},
	} {
		h := testserver.New()
		var recovered int32
		h.SetRecoverFunc(func(ctx context.Context, err any) error {
			atomic.AddInt32(&recovered, 1)
			t.Logf("%s: recover hook: %v", name, err)
			return nil
		})
		h.AddTransport(tr)
		srv := httptest.NewServer(h)
		sub := "graphql-ws"
		if name != "KeepAlivePingInterval" {
			sub = "graphql-transport-ws"
		}
		c := wsConnectWithSubprotocol(srv.URL, sub)
		_ = c.WriteJSON(&operationMessage{Type: connectionInitMsg})
		_ = c.SetReadDeadline(time.Now().Add(2 * time.Second))
		var ack operationMessage
		if err := c.ReadJSON(&ack); err != nil {
			t.Errorf("%s: no ack: %v", name, err)
		}
		startType := startMsg
		if sub == "graphql-transport-ws" {
			startType = "subscribe"
		}
		_ = c.WriteJSON(&operationMessage{Type: startType, ID: "1", Payload: json.RawMessage(`{"query": "{ name }"}`)})
		var data operationMessage
		if err := c.ReadJSON(&data); err != nil {
			t.Errorf("%s: the query was never answered: %v", name, err)
		}
		if n := atomic.LoadInt32(&recovered); n != 0 {
			t.Errorf("%s: gqlgen's own panic: recover hook ran %d times", name, n)
		}
		c.Close()
		srv.Close()
	}
}
