#!/bin/bash
# Benign corpus: behaviour-preserving edits (renamed locals, reordered independent statements, added comments,
# equivalent rewrites). Applied to a scratch copy of /repo; the property's quick check must NOT raise an alarm.
set -u
V=/verif
IDS="$@"; [ -z "$IDS" ] && IDS=$(ls $V/selftest/benign)
ok=0; bad=0
for ID in $IDS; do
  for P in $(ls $V/selftest/benign/$ID/*.patch 2>/dev/null); do
    S=$(mktemp -d /tmp/gocvben.XXXXXX)
    rsync -a --exclude .git /repo/ $S/repo/
    mkdir -p $S/verif && for d in checks replay probes known_findings.json; do ln -s $V/$d $S/verif/$d; done
    if ! (cd $S/repo && git apply $P 2>$S/apply.err); then echo "SKIP   $ID $(basename $P) ($(head -1 $S/apply.err))"; rm -rf $S; continue; fi
    if ! (cd $S/repo && GOFLAGS="-mod=mod -trimpath" GOPROXY=off go build ./... >/dev/null 2>&1); then echo "SKIP   $ID $(basename $P) (does not build)"; rm -rf $S; continue; fi
    OUT=$(VERIF_REPO=$S/repo VERIF_ROOT=$S/verif $V/bin/gocv check $ID 2>&1); RC=$?
    if [ $RC -eq 0 ]; then echo "QUIET  $ID $(basename $P)"; ok=$((ok+1)); else echo "ALARM  $ID $(basename $P): $(echo "$OUT" | grep 'failed obligation' | head -1 | cut -c1-160)"; bad=$((bad+1)); fi
    rm -rf $S
  done
done
echo "benign: quiet=$ok false-alarms=$bad"
[ $bad -eq 0 ]
