#!/bin/bash
# Must-fail corpus: every patch is a property-breaking change that compiles and passes the repository's tests.
# Each is applied to a scratch copy of /repo (never to /repo itself); the property's check must then report a
# violation. Usage: selftest/run.sh [ID ...]   (default: all properties with patches)
set -u
V=/verif
IDS="$@"
[ -z "$IDS" ] && IDS=$(ls $V/selftest/mutants 2>/dev/null; ls $V/seeded 2>/dev/null | sed 's/[a-z]*$//' | sort -u)
IDS=$(echo $IDS | tr ' ' '\n' | sort -u)
pass=0; fail=0
# scratch copies live under changing paths: keep the Go build cache from growing without bound
CACHE=$(go env GOCACHE 2>/dev/null); if [ -n "$CACHE" ] && [ "$(du -sm "$CACHE" 2>/dev/null | cut -f1)" -gt 30000 ]; then go clean -cache; fi
for ID in $IDS; do
  PATCHES=$(ls $V/selftest/mutants/$ID/*.patch 2>/dev/null; ls $V/seeded/$ID*/patch.diff 2>/dev/null)
  for P in $PATCHES; do
    S=$(mktemp -d /tmp/gocvself.XXXXXX)
    rsync -a --exclude .git /repo/ $S/repo/
    mkdir -p $S/verif && for d in checks replay probes known_findings.json; do ln -s $V/$d $S/verif/$d; done
    if ! (cd $S/repo && git apply $P 2>$S/apply.err); then
      # a seeded change whose context was moved by a later fix: commit keeps a rebased copy beside the original
      RB=$(dirname $P)/patch.rebased.diff
      if [ "$(basename $P)" = patch.diff ] && [ -f $RB ] && (cd $S/repo && git apply $RB 2>>$S/apply.err); then
        P=$RB
      else
        echo "SKIP  $ID $(echo $P | sed "s|$V/||")  (patch does not apply: $(head -1 $S/apply.err))"; rm -rf $S; continue
      fi
    fi
    # a must-fail change has to compile: a check "catching" code that does not build proves nothing
    if ! (cd $S/repo && GOFLAGS="-mod=mod -trimpath" GOPROXY=off go build ./... >$S/build.err 2>&1); then
      echo "INVALID $ID $(echo $P | sed "s|$V/||")  (does not build: $(grep -v '^#' $S/build.err | head -1))"; fail=$((fail+1)); rm -rf $S; continue
    fi
    OUT=$(VERIF_REPO=$S/repo VERIF_ROOT=$S/verif $V/bin/gocv check $ID 2>&1); RC=$?
    NV=$(echo "$OUT" | grep -c "^VIOLATION")
    OBL=$(echo "$OUT" | grep "failed obligation" | head -2 | sed 's/^ *failed obligation: //' | tr '\n' ';')
    REP=$(echo "$OUT" | grep -c "reproduced on the real code")
    if [ $RC -eq 1 ] && [ $NV -gt 0 ]; then
      echo "CAUGHT $ID $(echo $P | sed "s|$V/||")  violations=$NV replayed=$REP  $OBL"; pass=$((pass+1))
    else
      echo "MISSED $ID $(echo $P | sed "s|$V/||")  rc=$RC"; fail=$((fail+1))
    fi
    rm -rf $S
  done
done
echo "selftest: caught=$pass missed=$fail"
[ $fail -eq 0 ]
